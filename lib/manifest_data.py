HOOK_COMMITS = ["5763a84"]
NOTES = ("All checks are `bin/check <ID> --tier quick|thorough`. Every check rebuilds the harness from /repo's working tree with --cfg asca_verif, "
         "regenerates spec/gen/Inventory.tla from the tables the code loaded, runs TLC on the property's spec instances and binds them to the code by replay "
         "(spec->impl) and/or trace validation (impl->spec). Exit 2 = tool error, never a verdict.")
BASE_NOTE = ("Trusted: TLC and the TLA+ standard/Community modules; the harness projection between asca::Word and the spec's word records; "
             "Inventory.tla being generated from the loaded tables at every run. Bounded: see evidence coverage.rule for the enumerated space.")
CHECKS = {
    "C04": {
        "level": "model_checking",
        "text": "The bit-level matrix semantics is written once in spec/Features.tla; TLC enumerates the whole finite space of the property "
                "(every inventory segment x 26 features + 5 place nodes x polarity x rule shape, alpha pairs) checking the algebra's own laws as invariants, "
                "and every enumerated case is replayed through the real parser and rule interpreter and compared as feature bundles. Exhaustive, so model checking with conformance is the right level.",
        "note": BASE_NOTE,
        "technique": "TLA+ spec (Features) enumerated exhaustively by TLC; spec->impl replay of every case through the real rule pipeline",
    },
}
NOT_APPLICABLE = {}
for i in range(1, 21):
    k = "C%02d" % i
    if k not in CHECKS:
        NOT_APPLICABLE[k] = "check under construction in this session (specification module not yet bound to the code); see DESIGN.md section 5"
