HOOK_COMMITS = ["5763a84", "0183cfc", "533f193"]
FIX_COMMITS = ["cf6d5f6 (C18)", "C05 cursor fix"]
NOTES = ("All checks are `bin/check <ID> --tier quick|thorough`. Every check rebuilds the harness from /repo's working tree with --cfg asca_verif, "
         "regenerates spec/gen/Inventory.tla from the tables the code loaded, runs TLC on the property's spec instances and binds them to the code by replay "
         "(spec->impl) and/or trace validation (impl->spec). Exit 2 = tool error, never a verdict.")
BASE_NOTE = ("Trusted: TLC and the TLA+ standard/Community modules; the harness projection between asca::Word and the spec's word records; "
             "Inventory.tla being generated from the loaded tables at every run. Bounded: see evidence coverage.rule for the enumerated space.")
CHECKS = {
    "C04": {
        "level": "model_checking",
        "text": "The bit-level matrix semantics is written once in spec/Features.tla; TLC enumerates the whole finite space of the property "
                "(every inventory segment x 26 features + 5 place nodes x polarity x rule shape, alpha pairs) checking the algebra's own laws as invariants, "
                "and every enumerated case is replayed through the real parser and rule interpreter and compared as feature bundles. Exhaustive, so model checking with conformance is the right level.",
        "note": BASE_NOTE,
        "technique": "TLA+ spec (Features) enumerated exhaustively by TLC; spec->impl replay of every case through the real rule pipeline",
    },
}
CHECKS.update({
    "C03": {
        "level": "model_checking",
        "text": "spec/Scan.tla is an independent reference interpreter of the basic fragment written from the manual; mc/MC_Scan.tla is the same interpreter as an explicit state machine "
                "(FindMatch/EnvReject/Transform/Finish), model-checked exhaustively to refine the recursive operator, to make progress and to preserve well-formedness and the prosodic tier. "
                "TLC enumerates bounded-exhaustive strata of (rule, word) and a random sample of the full bound; every vector is replayed on the real interpreter comparing the structural "
                "word AND the per-iteration (position found, environment verdict) sequence recorded by hooks in SubRule::apply.",
        "note": BASE_NOTE + " The input space of the property (~10^12 points) is covered by exhaustive strata plus seeded sampling, not completely.",
        "technique": "TLA+ reference interpreter (Scan) + explicit machine model-checked by TLC; spec->impl replay with per-iteration event comparison",
    },
    "C05": {
        "level": "model_checking",
        "text": "The manual's three-way tables are spec/Supra.tla; TLC enumerates every (length, stress, tone) state x every modifier combination x input/output side x element kind x position "
                "(exhaustive in the thorough tier), checks set-then-match and the frame law as invariants, and every case is replayed through the real rule pipeline and compared structurally.",
        "note": BASE_NOTE,
        "technique": "TLA+ table model (Supra) enumerated by TLC; spec->impl replay of every cell through real rules",
    },
    "C18": {
        "level": "model_checking",
        "text": "spec/PlacePacking.tla gives the abstraction function of the packed u16, the abstract get/set algebra and a concrete model of the four setters; TLC checks the refinement and the "
                "get/set/frame/last-gone/no-residue laws for every packed value x 80 setter calls, and the harness checks that the real accessors compute exactly the concrete model on the same values "
                "(all 2^16+1 in the thorough tier), plus the Segment-level feature laws against Features.tla.",
        "note": "Trusted: TLC; the harness writes raw packed values through Place's public DerefMut. Quick tier enumerates all well-formed values and a seeded 1/16 of the ill-formed ones.",
        "technique": "TLA+ refinement (packed word -> abstract place) model-checked exhaustively by TLC; bit-exact spec->impl replay of the accessor calls",
    },
    "C10": {
        "level": "model_checking",
        "text": "spec/Pipeline.tla models run over an uninterpreted rule function; mc/MC_Pipeline proves staging (every split point) and regrouping (with empty groups) for EVERY rule function on a small "
                "domain; mc/MC_Stage adds the americanist flag and pins down the exact boundary of the one known counterexample. TLC then enumerates all (sequence length, two groupings, split point) "
                "schedules within the bound and the harness instantiates each with real rules (repository tests, shipped IE project) comparing the three real runs.",
        "note": BASE_NOTE + " The property's guard (intermediate output reads back as the same word) is evaluated structurally; unguarded cases are counted in evidence, not judged.",
        "technique": "TLA+ pipeline model over all rule functions (TLC, exhaustive) + TLC-enumerated schedules replayed on real rule pools",
    },
    "C11": {
        "level": "model_checking",
        "text": "MC_Pipeline proves per-line independence, order and the first-error rule of the word-major loop nest for every rule function; TLC enumerates every permutation and sublist of small word lists, "
                "replayed with real rules; and the hook events of apply_rule_groups are validated step by step against the loop-nest machine of tv/TV_Pipeline with a history variable forcing "
                "(rule, word) -> result to be a function across the list run, a permuted run and the singleton runs (no cross-word data flow).",
        "note": BASE_NOTE + " 'First failing word' is read per pipeline phase (all words are parsed before any rule is applied), see DESIGN.md C11.",
        "technique": "TLC model checking of the run loop for all rule functions; spec->impl schedule replay; impl->spec trace validation of loop events (TV_Pipeline)",
    },
    "C16": {
        "level": "model_checking",
        "text": "MC_Pipeline proves the relation between the group-major trace loop and the word-major run loop (strictly increasing indices, after_i = run of groups 0..i, unreported groups change nothing, "
                "last state = run) for every rule function; schedules enumerated by TLC are replayed on real rules through trace_changes, get_trace_string and run on every prefix; hook events of "
                "apply_rules_trace are validated against tv/TV_Pipeline (group-major order, snapshot rule, returned changes = Pipeline!Trace on the recorded history).",
        "note": BASE_NOTE + " Stated for returned traces only: run and tracer may fail with different errors (refuted SameErr in MC_Pipeline).",
        "technique": "TLC model checking of trace loop vs run loop for all rule functions; schedule replay; trace validation of loop events (TV_Pipeline)",
    },
})
NOT_APPLICABLE = {}
for i in range(1, 21):
    k = "C%02d" % i
    if k not in CHECKS:
        NOT_APPLICABLE[k] = "check under construction in this session (specification module not yet bound to the code); see DESIGN.md section 5"
