HOOK_COMMITS = ['5763a84', '0183cfc', '533f193']
FIX_COMMITS = ["cf6d5f6 (C18)", "C05 cursor fix"]
NOTES = ("All checks are `bin/check <ID> --tier quick|thorough`. Every check rebuilds the harness from /repo's working tree with --cfg asca_verif, "
         "regenerates spec/gen/Inventory.tla from the tables the code loaded, runs TLC on the property's spec instances and binds them to the code by replay "
         "(spec->impl) and/or trace validation (impl->spec). Exit 2 = tool error, never a verdict.")
BASE_NOTE = ("Trusted: TLC and the TLA+ standard/Community modules; the harness projection between asca::Word and the spec's word records; "
             "Inventory.tla being generated from the loaded tables at every run. Bounded: see evidence coverage.rule for the enumerated space.")
CHECKS = {
    "C04": {
        "level": "model_checking",
        "text": "The bit-level matrix semantics is written once in spec/Features.tla; TLC enumerates the whole finite space of the property "
                "(every inventory segment x 26 features + 5 place nodes x polarity x rule shape, alpha pairs) checking the algebra's own laws as invariants, "
                "and every enumerated case is replayed through the real parser and rule interpreter and compared as feature bundles. Exhaustive, so model checking with conformance is the right level.",
        "note": BASE_NOTE,
        "technique": "TLA+ spec (Features) enumerated exhaustively by TLC; spec->impl replay of every case through the real rule pipeline",
    },
}
CHECKS.update({
    "C03": {
        "level": "model_checking",
        "text": "spec/Scan.tla is an independent reference interpreter of the basic fragment written from the manual; mc/MC_Scan.tla is the same interpreter as an explicit state machine "
                "(FindMatch/EnvReject/Transform/Finish), model-checked exhaustively to refine the recursive operator, to make progress and to preserve well-formedness and the prosodic tier. "
                "TLC enumerates bounded-exhaustive strata of (rule, word) and a random sample of the full bound; every vector is replayed on the real interpreter comparing the structural "
                "word AND the per-iteration (position found, environment verdict) sequence recorded by hooks in SubRule::apply. In the other direction (tv/TV_Scan.tla) applications of "
                "basic-fragment rules over the FULL inventory (365 cardinals, 26 features) are recorded from the real interpreter and judged by TLC against Scan!RunScanF. "
                "Beyond the property, spec/ScanX.tla extends the reference interpreter to n-by-n substitution, deletion, metathesis and insertion (model-checked machine mc/MC_ScanX.tla, "
                "behaviours replayed on the code); its agreement is reported in the evidence as an informational job and never decides C03.",
        "note": BASE_NOTE + " The input space of the property (~10^12 points) is covered by exhaustive strata plus seeded sampling, not completely.",
        "technique": "TLA+ reference interpreter (Scan) + explicit machine model-checked by TLC; spec->impl replay with per-iteration event comparison; impl->spec trace validation (TV_Scan) over the full inventory",
    },
    "C05": {
        "level": "model_checking",
        "text": "The manual's three-way tables are spec/Supra.tla; TLC enumerates every (length, stress, tone) state x every modifier combination x input/output side x element kind x position "
                "(exhaustive in the thorough tier), checks set-then-match and the frame law as invariants, and every case is replayed through the real rule pipeline and compared structurally.",
        "note": BASE_NOTE,
        "technique": "TLA+ table model (Supra) enumerated by TLC; spec->impl replay of every cell through real rules",
    },
    "C18": {
        "level": "model_checking",
        "text": "spec/PlacePacking.tla gives the abstraction function of the packed u16, the abstract get/set algebra and a concrete model of the four setters; TLC checks the refinement and the "
                "get/set/frame/last-gone/no-residue laws for every packed value x 80 setter calls, and the harness checks that the real accessors compute exactly the concrete model on the same values "
                "(all 2^16+1 in the thorough tier), plus the Segment-level feature laws against Features.tla and the match equation node_match(n, v) <=> get_node(n) = v on the absent value, zero, the stored value and its neighbours.",
        "note": "Trusted: TLC; the harness writes raw packed values through Place's public DerefMut. Quick tier enumerates all well-formed values and a seeded 1/16 of the ill-formed ones.",
        "technique": "TLA+ refinement (packed word -> abstract place) model-checked exhaustively by TLC; bit-exact spec->impl replay of the accessor calls",
    },
    "C10": {
        "level": "model_checking",
        "text": "spec/Pipeline.tla models run over an uninterpreted rule function; mc/MC_Pipeline proves staging (every split point) and regrouping (with empty groups) for EVERY rule function on a small "
                "domain; mc/MC_Stage adds the americanist flag and pins down the exact boundary of the one known counterexample. TLC then enumerates all (sequence length, two groupings, split point) "
                "schedules within the bound and the harness instantiates each with real rules (repository tests, shipped IE project) comparing the three real runs.",
        "note": BASE_NOTE + " The property's guard (intermediate output reads back as the same word) is evaluated structurally; unguarded cases are counted in evidence, not judged.",
        "technique": "TLA+ pipeline model over all rule functions (TLC, exhaustive) + TLC-enumerated schedules replayed on real rule pools",
    },
    "C11": {
        "level": "model_checking",
        "text": "MC_Pipeline proves per-line independence, order and the first-error rule of the word-major loop nest for every rule function; TLC enumerates every permutation and sublist of small word lists, "
                "replayed with real rules; and the hook events of apply_rule_groups are validated step by step against the loop-nest machine of tv/TV_Pipeline with a history variable forcing "
                "(rule, word) -> result to be a function across the list run, a permuted run and the singleton runs (no cross-word data flow); the recorded workloads include generated rules (with alphas) and the words assembled from their elements, lines with leading / doubled blanks, notation twins, every input spelling the manual allows, and all ordered pairs of small word pools.",
        "note": BASE_NOTE + " 'First failing word' is read per pipeline phase (all words are parsed before any rule is applied), see DESIGN.md C11.",
        "technique": "TLC model checking of the run loop for all rule functions; spec->impl schedule replay; impl->spec trace validation of loop events (TV_Pipeline)",
    },
    "C16": {
        "level": "model_checking",
        "text": "MC_Pipeline proves the relation between the group-major trace loop and the word-major run loop (strictly increasing indices, after_i = run of groups 0..i, unreported groups change nothing, "
                "last state = run) for every rule function; schedules enumerated by TLC are replayed on real rules through trace_changes, get_trace_string and run on every prefix; hook events of "
                "apply_rules_trace are validated against tv/TV_Pipeline (group-major order, snapshot rule, returned changes = Pipeline!Trace on the recorded history).",
        "note": BASE_NOTE + " Stated for returned traces only: run and tracer may fail with different errors (refuted SameErr in MC_Pipeline).",
        "technique": "TLC model checking of trace loop vs run loop for all rule functions; schedule replay; trace validation of loop events (TV_Pipeline)",
    },
})
CHECKS.update({
    "C01": {
        "level": "model_checking",
        "text": "spec/Text.tla defines, for a target bundle, the SET of renderings over every order of equally good candidates; TLC evaluates it over the loaded tables and the real renderer must "
                "produce the spec's rendering for the loaded order on every target (binding), so the hash-seed quantifier is covered for the renderer by construction. Across processes: K fresh processes run "
                "the same workload (renderer, `+` romanisers, run on a list / the list again / a permutation / singletons, tracer); every observation is keyed by its input and TLC (TV_Laws C01Law) accepts "
                "iff all observations of one input carry the same result.",
        "note": BASE_NOTE + " std HashMap seeds cannot be set, only sampled (6 / 12 processes).",
        "technique": "TLA+ renderer model (set of admissible renderings) evaluated by TLC + spec->impl binding; impl->spec validation of per-input observations recorded in K processes",
    },
    "C02": {
        "level": "model_checking",
        "text": "mc/MC_Scan proves progress and termination of the reference machine. Every call of run / get_trace_string on rules from the Grammar generator (TLC), token-level mutations, noise, and on alias "
                "strings is executed with the loop-head step counter of the hooks; one record per call (outcome, loop states of the two main loops per sub-rule application) is validated by TLC (C02Law: "
                "returned Ok|Err, tracer returned, no main-loop state repeated). Half of the words are assembled from the rule's own elements (whole, cut short at either end, doubled); two systematic strata cover the length bookkeeping of multi-element substitutions (9 length modifiers x 4 second outputs x 6 shapes x 10 words) and the alias grammar (every element shape x 15 modifier kinds incl. alphas x every replacement shape, both directions). Open defects are listed as known findings with signatures evaluated on the failing vector.",
        "note": BASE_NOTE + " Step budget = min(400 (|w|+2)^(1+e) (|r|+2), 20000) ticks; the largest tick count of a returning call is recorded in evidence (hundreds). Noise is produced by the harness, not by TLC.",
        "technique": "TLC model checking of progress on the reference machine; impl->spec validation of tick traces and outcomes of generated / mutated / noise inputs",
    },
    "C06": {
        "level": "model_checking",
        "text": "On the reference machine NoMatchStutter is model-checked. The Grammar generator (TLC) produces rules of the full documented grammar with a literal absent from every word planted at the "
                "first segment position, at the end of the input (after variable references, ellipses, boundaries) or in every context environment, at any position of the input, inside syllable structures (front or back), at either end of either side of an insertion context, bare or wearing a modifier block - the words hold near-misses of the planted literal (qʷ, ɢ, qʰ ...) and words assembled from the rule's own elements; a systematic sweep plants it at every position of 14 "
                "input templates and 8 context templates; blank and comment-only lines are added. Every application is recorded structurally and TLC (C06Law) requires after = before.",
        "note": BASE_NOTE,
        "technique": "TLC model checking of the stutter lemma + impl->spec validation of structural before/after records of planted rules",
    },
    "C07": {
        "level": "model_checking",
        "text": "Identity rules (`X1=1..Xk=k > 1..k`, `[aF] > [aF]` for features, nodes, length, stress, `%:[astress] > [astress]`) with arbitrary environments are generated by TLC and every application "
                "must leave the word untouched (C07Law). For variables in contexts TLC enumerates `A > B / X=1 _ 1` (4 targets x 4 outputs x 5 binders, every small word) and the syllable version and "
                "computes the reference result (fires exactly between identical bundles); the real interpreter is replayed on every vector.",
        "note": BASE_NOTE,
        "technique": "impl->spec validation of identity-rule records; bounded-exhaustive spec->impl replay of the context-variable reference semantics",
    },
    "C08": {
        "level": "model_checking",
        "text": "WordOK (>= 1 syllable, no empty syllable, tone <= 4 non-zero digits, bundle bits within the defined features, packed place well-formed) is an invariant of the reference machine and is "
                "evaluated by TLC on the word after EVERY sub-rule of histories of up to 6 rules (generated, repository tests, shipped project), plus two systematic strata: every cardinal with its place "
                "sub-nodes removed one rule at a time in every order, rules that can consume a whole tiny word, and the tones of neighbouring syllables joined by eight boundary-removing rule shapes for every ordered pair of tones of 1-4 digits.",
        "note": BASE_NOTE,
        "technique": "TLC invariant on the reference machine + impl->spec validation of every intermediate word (raw bits included)",
    },
    "C09": {
        "level": "model_checking",
        "text": "spec/Text.tla contains the renderer and the longest-match reader; TLC evaluates both on every target bundle of the domain and the harness checks that the real renderer and the real word "
                "parser agree with them and that reading back gives the same segment; assembled words (length, stress, tone, boundaries; also segments without a spelling, which must print as the replacement character) and the words that generated rules produce are recorded and TLC (C09Law) requires parse(render(w)) = w and "
                "the fixed-point corollary.",
        "note": BASE_NOTE + " Quick: every base, a seeded third of base+1 diacritic, feature changes on a seeded 1/128; thorough adds two diacritics.",
        "technique": "TLA+ renderer/reader model evaluated by TLC, spec->impl binding; impl->spec validation of word round trips",
    },
    "C12": {
        "level": "model_checking",
        "text": "The manual's expansions are operators of spec/Grammar.tla (broadcast of condensed rules, MirrorSeq, group matrices, ExpandOptSide, MetAsVars); TLC generates (shorthand, expansion) pairs "
                "for the five shorthands inside rules of the full grammar and the real interpreter must give the same structural word for both on every word (random words and words assembled from the rules' own elements); condensed rules carry context and exception blocks broadcast independently; the group letters are additionally run on a word around EVERY cardinal of the inventory (9 letters x 3 positions x 365 x 2).",
        "note": BASE_NOTE,
        "technique": "TLA+ expansion operators + spec->impl replay of shorthand/expansion pairs (implementation against implementation, structurally)",
    },
    "C13": {
        "level": "model_checking",
        "text": "Frozen synonym tables (spec/Lexicon.tla): every member of every class in two spacing variants through the rule lexer and the alias lexer against the canonical spelling; rules of the full "
                "grammar with two independent respellings of every synonym-bearing token and respelled words: outcomes (words or error variant) must be equal. Systematic strata: every alpha letter (Greek and Latin) in three rule shapes; every multi-character "
                "base phone x tie bar / ^ / ^ at an implicit-tie position x each input alias of its letters.",
        "note": BASE_NOTE + " Letter case is not varied (a capital before a feature name is an alpha, so upper-case spellings are ambiguous by design).",
        "technique": "frozen TLA+ synonym tables enumerated by TLC; spec->impl replay of respelling pairs through both lexers",
    },
    "C14": {
        "level": "model_checking",
        "text": "ProsKept is model-checked on the reference machine; TLC generates rules classified segment-only / prosody-only with arbitrary environments and exceptions of the full grammar; every application "
                "is recorded and TLC (C14Law) requires the untouched tier (WordStruct!ProsTier / SegTier) to be equal.",
        "note": BASE_NOTE,
        "technique": "TLC model checking of tier preservation on the reference machine + impl->spec validation of tier equality on recorded applications",
    },
    "C15": {
        "level": "model_checking",
        "text": "spec/Alias.tla is the romaniser as a text transducer over the default rendering; TLC enumerates every ordered list of <= 2 romanisers from a pool x every small word with the printed form, "
                "replayed on the real run. For random rules/words: the sequence of words entering and leaving every rule (hook events) with and without romanisers must be identical, and a deromanised "
                "spelling must give the result of the IPA it stands for (C15Law).",
        "note": BASE_NOTE + " The printed-form model covers words without length and tone.",
        "technique": "TLA+ transducer model, bounded-exhaustive spec->impl replay; impl->spec validation of event sequences with/without aliases",
    },
    "C17": {
        "level": "fault_enumeration",
        "text": "A frozen catalogue of syntax, late-syntax, runtime, word and alias faults (calibrated per run; it reaches 90 of the library's error variants) is planted at every (group, line) of every project shape; TLC enumerates the cases and - from the "
                "pipeline's phase order - which of two faults is reported. The error is formatted under catch_unwind and its location and caret span are checked.",
        "note": "Trusted: the catalogue spec/frozen/faults.json; fillers never match the fixed word. Quick: shapes <= 2x2 single faults; thorough: 3x3 and a seeded 1/97 of all ordered pairs.",
        "technique": "fault enumeration: TLC enumerates (shape, position, fault[, second fault]) with the reported fault predicted from the phase order; replay on the real run and formatters",
    },
    "C19": {
        "level": "model_checking",
        "text": "spec/Cli.tla models the file readers/writers; mc/MC_Cli proves that the round trip holds exactly on the well-formed projects; TLC enumerates every sequence of <= 5 rule-file / alias-file lines "
                "and <= 3 word-file lines with what the readers make of it, and the real binary (conv asca, run -o on the rule-file and on the word-file sequences, conv json round trip with explicit and default paths) is compared with it and with asca::run.",
        "note": "Trusted: TLC; the binary is built from /repo's working tree; fixed strings instantiate abstract line contents. Quick samples 1/40 of the line sequences.",
        "technique": "TLC model checking of reader/writer round trip; spec->impl replay of line sequences through the real binary",
    },
    "C20": {
        "level": "model_checking",
        "text": "mc/MC_Seq is the resolver with call stack and cache as an explicit machine under the free interpretation of the stage functions: validator accepts iff acyclic and no dangling reference, every "
                "delivered result is the composition along the chain for every request order, termination. Seeded 4-tag configs (chains, forks, cycles, ! and ~ filters in mixed case on first, middle and several groups of rule files whose groups do not commute, extra word files, every "
                "declaration order) are materialised and the real `asca seq`, `-t`, `conv tag -r` compared with the plan executed through asca::run.",
        "note": "Trusted: TLC; the binary is built from /repo's working tree; rule files and words are fixed real texts.",
        "technique": "TLC model checking of the resolver/cache machine (free interpretation); spec->impl replay of project configs through the real binary",
    },
})
NOT_APPLICABLE = {}
for i in range(1, 21):
    k = "C%02d" % i
    if k not in CHECKS:
        NOT_APPLICABLE[k] = "check under construction in this session (specification module not yet bound to the code); see DESIGN.md section 5"
