"""Per-property pipelines. Each takes a vcheck.Run and fills it."""
import json, os
from vcheck import run_tlc, run_harness, HARNESS, ToolError, log, NCPU, BUILD, ROOT, SPEC

TRUSTED = [
    "TLC 2 (tla2tools 1.8.0) and the TLA+ standard/Community modules evaluate the specification correctly",
    "the harness projection asca::Word <-> W (harness/src/proj.rs) and asca::verif::make_word are faithful",
    "spec/gen/Inventory.tla is regenerated at every run from the tables the code loaded (asca::verif::tables)",
]


def mc_job(run, name, module, cfg, what, workers=None, timeout=3000, extra=None):
    """a design-level model-checking job (no consumer); any invariant/property violation is a model-level finding"""
    res = run_tlc(name, module, cfg, env=run.known_env(), timeout=timeout, workers=workers, extra=(extra or []) + ["-coverage", "1"], expect_violation=True)
    run.add_tlc(name, res, what)
    never = sorted(k for k, v in res.coverage.items() if v[1] == 0)
    if never:
        run.cov["jobs"][name]["actions_never_taken"] = never
        raise ToolError("vacuity: action(s) never taken in %s: %s" % (name, never))
    if res.invariant_violated:
        run.violation(name, {"model_level": True, "violated": res.invariant_violated, "tlc": res.error[:3000]})
    return res


def c04(run):
    run.assumptions += TRUSTED + ["rule texts are printed from the vector by harness/src/c04.rs::rule_text (3 fixed shapes)"]
    cfg = "gen/GEN_C04_%s.cfg" % run.tier
    res = run_tlc("GEN_C04", "gen/GEN_C04.tla", cfg, env=run.known_env(), consumer=[HARNESS, "replay", "C04"], timeout=3000)
    run.add_tlc("GEN_C04", res, "S->I: TLC enumerates (segment, modifier, shape) with the outcome Features demands; harness replays through the real rule pipeline; "
                                "the algebraic laws of Features (set-then-match, frame conditions) are checked as invariants on the same states")
    run.cov["exhaustive"] = True
    run.cov["rule"] = ("exhaustive over (target segment) x (26 features + 5 place nodes) x {+,-} x {set, match} plus alpha pairs (F,G,inverted) on "
                       "the bases selected by the seed (quick) or on all bases (thorough); quick: 365 base segments, thorough: base + every applicable single diacritic; "
                       "non-trivial = expected bundle differs from the input bundle or an error is expected")


def c18(run):
    run.assumptions += TRUSTED[:1] + ["a packed place is built by writing the raw Option<u16> through Place's public DerefMut"]
    cfg = "gen/GEN_C18_%s.cfg" % run.tier
    res = run_tlc("GEN_C18", "gen/GEN_C18.tla", cfg, env=run.known_env(), consumer=[HARNESS, "replay", "C18"], timeout=3000)
    run.add_tlc("GEN_C18", res, "M: PlacePacking!Refines and the get/set/frame/last-gone/no-residue laws as invariants over every packed value x 80 setter calls; "
                                "S->I: the real accessors computed on the same packed value must equal the concrete model bit for bit")
    run.cov["exhaustive"] = run.tier == "thorough"
    run.cov["rule"] = ("every well-formed packed place (8125 + None) and, thorough, every one of the 2^16 values (quick: the ill-formed ones with u % 16 = seed % 16); "
                       "per value: 4 getters, 80 setter calls, 24 place-feature set/match calls through Segment; plus all 256 bytes of root/manner/laryngeal x their features x polarity; "
                       "non-trivial = the call changes the packed value")


def c05(run):
    run.assumptions += TRUSTED + ["rule texts are printed from the vector by harness/src/c05.rs::rule_text"]
    cfg = "gen/GEN_C05_%s.cfg" % run.tier
    res = run_tlc("GEN_C05", "gen/GEN_C05.tla", cfg, env=run.known_env(), consumer=[HARNESS, "replay", "C05"], timeout=3000)
    run.add_tlc("GEN_C05", res, "S->I: TLC enumerates (length, stress, tone) x (3^4 x 5 modifier combinations) x side x element kind x position with the outcome of Supra's tables; "
                                "replayed through the real rule pipeline on a three-syllable word; Supra!SetThenMatch and FrameLaw checked as invariants")
    run.cov["exhaustive"] = run.tier == "thorough"
    run.cov["rule"] = ("36 states x 405 modifier sets x {in,out} x {ipa,grp,mx,syl} x {first,mid,last}; thorough: all; quick: every set with <= 1 modifier plus a seeded tenth; "
                       "non-trivial = the expected word differs from the input or an error is expected")


def c03(run):
    run.assumptions += TRUSTED + ["rule texts are printed from the AST by harness/src/rules.rs"]
    what = {"A": "no exception, context sides <= 2, words <= 4 segments in every syllabification",
            "B": "context and exception sides <= 1, words <= 4", "C": "two-member environment sets, sides <= 1, words <= 4",
            "D": "random sample of the full bound: context and exception sides <= 2 each, random words <= 6 segments"}
    mc_job(run, "MC_Scan", "mc/MC_Scan.tla", "mc/MC_Scan%s.cfg" % ("_thorough" if run.tier == "thorough" else ""),
           "M: the interpreter as an explicit state machine (FindMatch/EnvReject/Transform/Finish) refines Scan!RunScan; WordOK, cursor progress, termination, "
           "prosodic tier kept, no-match stutter; exhaustive over a small rule pool x all words <= %d segments" % (3 if run.tier == "thorough" else 2))
    for name in ["A", "B", "C", "D"]:
        cfg = "gen/GEN_C03_%s_%s.cfg" % (name, run.tier)
        res = run_tlc("GEN_C03_" + name, "gen/GEN_C03.tla", cfg, env=run.known_env(), consumer=[HARNESS, "replay", "C03"], timeout=6000,
                      extra=["-seed", run.seed])
        run.add_tlc("GEN_C03_" + name, res, "S->I: Scan!RunScan (reference interpreter) on stratum %s (%s); the harness compares the structural result and the "
                    "per-iteration (position found, environment verdict) sequence recorded by the hooks in SubRule::apply" % (name, what[name]))
    run.cov["rule"] = ("rules of the basic fragment over inventory {a,t,i}: 8 inputs (IPA, [+syll], [-syll], [], C, two sets) x 5 outputs (IPA or feature matrix) x environments over "
                       "{a, t, [+syll], C, {a,t}, $, #}; strata sampled by rule index % Stride = seed % Stride (quick) or densely (thorough); words: all segment strings in all syllabifications "
                       "without in-syllable runs at any stage; non-trivial = the rule rewrites at least one segment")


PROPS = {
    "C03": (c03, "model_checking"),
    "C05": (c05, "model_checking"),
    "C18": (c18, "model_checking"),
    "C04": (c04, "model_checking"),
}


def replay(run, path):
    raise ToolError("replay not implemented for " + run.pid)
