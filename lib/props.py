"""Per-property pipelines. Each takes a vcheck.Run and fills it."""
import json, os
from vcheck import run_tlc, run_harness, HARNESS, ToolError, log, NCPU, BUILD, ROOT, SPEC

TRUSTED = [
    "TLC 2 (tla2tools 1.8.0) and the TLA+ standard/Community modules evaluate the specification correctly",
    "the harness projection asca::Word <-> W (harness/src/proj.rs) and asca::verif::make_word are faithful",
    "spec/gen/Inventory.tla is regenerated at every run from the tables the code loaded (asca::verif::tables)",
]


def mc_job(run, name, module, cfg, what, workers=None, timeout=3000, extra=None):
    """a design-level model-checking job (no consumer); any invariant/property violation is a model-level finding"""
    res = run_tlc(name, module, cfg, env=run.known_env(), timeout=timeout, workers=workers, extra=(extra or []) + ["-coverage", "1"], expect_violation=True)
    run.add_tlc(name, res, what)
    never = sorted(k for k, v in res.coverage.items() if v[1] == 0)
    if never:
        run.cov["jobs"][name]["actions_never_taken"] = never
        raise ToolError("vacuity: action(s) never taken in %s: %s" % (name, never))
    if res.invariant_violated:
        run.violation(name, {"model_level": True, "violated": res.invariant_violated, "tlc": res.error[:3000]})
    return res


def c04(run):
    run.assumptions += TRUSTED + ["rule texts are printed from the vector by harness/src/c04.rs::rule_text (3 fixed shapes)"]
    cfg = "gen/GEN_C04_%s.cfg" % run.tier
    res = run_tlc("GEN_C04", "gen/GEN_C04.tla", cfg, env=run.known_env(), consumer=[HARNESS, "replay", "C04"], timeout=3000)
    run.add_tlc("GEN_C04", res, "S->I: TLC enumerates (segment, modifier, shape) with the outcome Features demands; harness replays through the real rule pipeline; "
                                "the algebraic laws of Features (set-then-match, frame conditions) are checked as invariants on the same states")
    run.cov["exhaustive"] = True
    run.cov["rule"] = ("exhaustive over (target segment) x (26 features + 5 place nodes) x {+,-} x {set, match} plus alpha pairs (F,G,inverted) on "
                       "the bases selected by the seed (quick) or on all bases (thorough); quick: 365 base segments, thorough: base + every applicable single diacritic; "
                       "non-trivial = expected bundle differs from the input bundle or an error is expected")


def c18(run):
    run.assumptions += TRUSTED[:1] + ["a packed place is built by writing the raw Option<u16> through Place's public DerefMut"]
    cfg = "gen/GEN_C18_%s.cfg" % run.tier
    res = run_tlc("GEN_C18", "gen/GEN_C18.tla", cfg, env=run.known_env(), consumer=[HARNESS, "replay", "C18"], timeout=3000)
    run.add_tlc("GEN_C18", res, "M: PlacePacking!Refines and the get/set/frame/last-gone/no-residue laws as invariants over every packed value x 80 setter calls; "
                                "S->I: the real accessors computed on the same packed value must equal the concrete model bit for bit")
    run.cov["exhaustive"] = run.tier == "thorough"
    run.cov["rule"] = ("every well-formed packed place (8125 + None) and, thorough, every one of the 2^16 values (quick: the ill-formed ones with u % 16 = seed % 16); "
                       "per value: 4 getters, 80 setter calls, 24 place-feature set/match calls through Segment; plus all 256 bytes of root/manner/laryngeal x their features x polarity; "
                       "non-trivial = the call changes the packed value")


def c05(run):
    run.assumptions += TRUSTED + ["rule texts are printed from the vector by harness/src/c05.rs::rule_text"]
    cfg = "gen/GEN_C05_%s.cfg" % run.tier
    res = run_tlc("GEN_C05", "gen/GEN_C05.tla", cfg, env=run.known_env(), consumer=[HARNESS, "replay", "C05"], timeout=3000)
    run.add_tlc("GEN_C05", res, "S->I: TLC enumerates (length, stress, tone) x (3^4 x 5 modifier combinations) x side x element kind x position with the outcome of Supra's tables; "
                                "replayed through the real rule pipeline on a three-syllable word; Supra!SetThenMatch and FrameLaw checked as invariants")
    run.cov["exhaustive"] = run.tier == "thorough"
    run.cov["rule"] = ("36 states x 405 modifier sets x {in,out} x {ipa,grp,mx,syl} x {first,mid,last}; thorough: all; quick: every set with <= 1 modifier plus a seeded tenth; "
                       "non-trivial = the expected word differs from the input or an error is expected")


def c03(run):
    run.assumptions += TRUSTED + ["rule texts are printed from the AST by harness/src/rules.rs"]
    what = {"A": "no exception, context sides <= 2, words <= 4 segments in every syllabification",
            "B": "context and exception sides <= 1, words <= 4", "C": "two-member environment sets, sides <= 1, words <= 4",
            "D": "random sample of the full bound: context and exception sides <= 2 each, random words <= 6 segments"}
    mc_job(run, "MC_Scan", "mc/MC_Scan.tla", "mc/MC_Scan%s.cfg" % ("_thorough" if run.tier == "thorough" else ""),
           "M: the interpreter as an explicit state machine (FindMatch/EnvReject/Transform/Finish) refines Scan!RunScan; WordOK, cursor progress, termination, "
           "prosodic tier kept, no-match stutter; exhaustive over a small rule pool x all words <= %d segments" % (3 if run.tier == "thorough" else 2))
    for name in ["A", "B", "C", "D"]:
        cfg = "gen/GEN_C03_%s_%s.cfg" % (name, run.tier)
        res = run_tlc("GEN_C03_" + name, "gen/GEN_C03.tla", cfg, env=run.known_env(), consumer=[HARNESS, "replay", "C03"], timeout=6000,
                      extra=["-seed", run.seed])
        run.add_tlc("GEN_C03_" + name, res, "S->I: Scan!RunScan (reference interpreter) on stratum %s (%s); the harness compares the structural result and the "
                    "per-iteration (position found, environment verdict) sequence recorded by the hooks in SubRule::apply" % (name, what[name]))
    # implementation -> specification over the FULL inventory: recorded applications validated by the reference machine in TLC
    asts = gen_rules(run, "f0")
    out = os.path.join(BUILD, "rec-C03-f0.ndjson")
    summary, _ = run_harness(["record", "C03", asts, out, str(10 if run.tier == "thorough" else 6)], env=run.known_env(), timeout=6000)
    run.add_summary("record_C03_f0", summary, traces=False)
    nrec = summary["extra"].get("records", 0)
    # TLC holds the deserialised records of one run in memory: large recordings are validated in parts
    CHUNK = 30000
    parts = [out]
    if nrec > CHUNK:
        parts, fh, n = [], None, 0
        for line in open(out):
            if n % CHUNK == 0:
                if fh: fh.close()
                parts.append("%s.part%d" % (out, len(parts)))
                fh = open(parts[-1], "w")
            fh.write(line); n += 1
        if fh: fh.close()
    rejected, skipped, distinct = set(), set(), 0
    for k, part in enumerate(parts):
        name = "TV_Scan" if len(parts) == 1 else "TV_Scan_part%d" % k
        res = run_tlc(name, "tv/TV_Scan.tla", "tv/TV_Scan.cfg", env=dict(run.known_env(), TRACE=part), timeout=6000, heap="12g")
        run.add_tlc(name, res, "I->S: applications of basic-fragment rules with literals from all 365 cardinals and matrices over all 26 features, on words over the rule's own literals, recorded from the "
                               "real interpreter (result + per-iteration events) and validated by TLC against Scan!RunScanF")
        rejected |= set(json.loads(x)["rejected_record"] for x in res.printed if isinstance(x, str) and "rejected_record" in x)
        skipped |= set(json.loads(x)["skipped_record"] for x in res.printed if isinstance(x, str) and "skipped_record" in x)
        distinct += res.distinct
        if part != out:
            os.remove(part)
    if distinct != 2 * nrec:
        raise ToolError("TV_Scan examined %d states for %d records" % (distinct, nrec))
    run.cov["jobs"]["TV_Scan"] = run.cov["jobs"].get("TV_Scan") or dict(run.cov["jobs"]["TV_Scan_part0"], parts=len(parts))
    corrupt, bad = set(), []
    for line in open(out + ".meta"):
        m = json.loads(line)
        if m.get("corrupt"):
            corrupt.add(m["id"])
        elif m["id"] in rejected and len(bad) < 20:
            bad.append(m)
    missed = [i for i in corrupt if i not in rejected and i not in skipped]
    if missed or not (corrupt - skipped):
        raise ToolError("TV_Scan self-test: %d corrupted copies, %d of them accepted (the trace spec does not bind)" % (len(corrupt), len(missed)))
    run.cov["jobs"]["TV_Scan"].update({"records": nrec, "judged": nrec - len(skipped), "outside_fragment": len(skipped),
                                       "corrupted_copies_rejected": len(corrupt & rejected), "rejected": len(rejected - corrupt)})
    run.cov["traces_validated_against_impl"] += nrec - len(skipped) - len(corrupt)
    for m in bad:
        run.violation("TV_Scan", {"rejected_record": m})
    for f in (asts, out, out + ".meta"):
        try: os.remove(f)
        except OSError: pass
    # beyond the property: the reference interpreter's fragment F1 (n-by-n substitution, deletion, metathesis, insertion). The specification is
    # model-checked (machine = recursive composition, well-formedness, termination measure, tier laws) and its behaviours are replayed on the code;
    # agreement is reported, divergences are shown as NOTEs - C03 itself speaks about the basic fragment only.
    res = run_tlc("MC_ScanX", "mc/MC_ScanX.tla", "mc/MC_ScanX%s.cfg" % ("_thorough" if run.tier == "thorough" else ""), env=run.known_env(), timeout=3000, extra=["-coverage", "1"], expect_violation=True)
    if res.invariant_violated:
        raise ToolError("the specification ScanX violates its own law %s" % res.invariant_violated)
    run.add_tlc("MC_ScanX", res, "M: ScanX (beyond C03): the explicit machine ends in ScanX!RunX; WordInv, Measure/Terminates, SubKeeps, MetKeeps, DelShrinks, InsGrows, NoMatchStutter on all words <= %d segments" % (4 if run.tier == "thorough" else 3))
    res = run_tlc("GEN_ScanX", "gen/GEN_ScanX.tla", "gen/GEN_ScanX_%s.cfg" % run.tier, env=run.known_env(), consumer=[HARNESS, "replay", "C03"], timeout=6000)
    run.add_informational("GEN_ScanX", res, "S->I beyond C03: rules of fragment F1 (n-by-n substitution, deletion, metathesis, insertion; contexts and exceptions up to two elements a side) x every word "
                                            "<= %d segments over {a,t,i} in every syllabification, ScanX!RunX replayed on the real interpreter" % (5 if run.tier == "thorough" else 4))
    # ... and in the other direction over the FULL inventory: recorded applications of F1 rules judged by TLC against ScanX!RunX (informational as well)
    asts = gen_rules(run, "f1")
    out = os.path.join(BUILD, "rec-C03-f1.ndjson")
    summary, _ = run_harness(["record", "C03X", asts, out, str(8 if run.tier == "thorough" else 6)], env=run.known_env(), timeout=6000)
    nrec = summary["extra"].get("records", 0)
    parts, fh, n = [], None, 0
    for line in open(out):
        if n % 30000 == 0:
            if fh: fh.close()
            parts.append("%s.part%d" % (out, len(parts)))
            fh = open(parts[-1], "w")
        fh.write(line); n += 1
    if fh: fh.close()
    rejected, skipped, distinct, gen, wall = set(), set(), 0, 0, 0.0
    for part in parts:
        res = run_tlc("TV_ScanX", "tv/TV_ScanX.tla", "tv/TV_ScanX.cfg", env=dict(run.known_env(), TRACE=part), timeout=6000, heap="12g")
        rejected |= set(json.loads(x)["rejected_record"] for x in res.printed if isinstance(x, str) and "rejected_record" in x)
        skipped |= set(json.loads(x)["skipped_record"] for x in res.printed if isinstance(x, str) and "skipped_record" in x)
        distinct += res.distinct; gen += res.generated; wall += res.wall
        os.remove(part)
    if distinct != 2 * nrec:
        raise ToolError("TV_ScanX examined %d states for %d records" % (distinct, nrec))
    examples = []
    for line in open(out + ".meta"):
        m = json.loads(line)
        if m["id"] in rejected and len(examples) < 8:
            examples.append({k: m.get(k) for k in ("rule", "word", "after", "outcome", "detail")})
    run.cov["states"] += distinct
    run.cov["transitions"] += gen
    run.cov["jobs"]["TV_ScanX"] = {"kind": "I->S beyond C03: applications of fragment-F1 rules (n-by-n substitution, deletion, metathesis, insertion; literals from all 365 cardinals, matrices over all 26 features) "
                                           "on words assembled from the rule's own elements, recorded from the real interpreter and judged by TLC against ScanX!RunX",
                                   "verdict": "informational (outside the listed property)", "distinct_states": distinct, "states_generated": gen, "wall_s": round(wall, 1),
                                   "records": nrec, "judged": nrec - len(skipped), "outside_fragment": len(skipped), "accepted": nrec - len(skipped) - len(rejected), "divergences": len(rejected),
                                   "divergence_examples": examples}
    run.cov["traces_validated_against_impl"] += nrec - len(skipped) - len(rejected)
    print("[check] tlc TV_ScanX %d records: %d judged, %d accepted, %d diverge (informational)" % (nrec, nrec - len(skipped), nrec - len(skipped) - len(rejected), len(rejected)))
    if rejected and examples:
        print("NOTE: TV_ScanX: %d of %d judged records diverge from the specification outside the listed property (not a verdict), e.g. %s" % (len(rejected), nrec - len(skipped), json.dumps(examples[0], ensure_ascii=False)[:300]))
    for f in (asts, out, out + ".meta"):
        try: os.remove(f)
        except OSError: pass
    run.cov["rule"] = ("rules of the basic fragment over inventory {a,t,i}: 8 inputs (IPA, [+syll], [-syll], [], C, two sets) x 5 outputs (IPA or feature matrix) x environments over "
                       "{a, t, [+syll], C, {a,t}, $, #}; strata sampled by rule index % Stride = seed % Stride (quick) or densely (thorough); words: all segment strings in all syllabifications "
                       "without in-syllable runs at any stage; non-trivial = the rule rewrites at least one segment")


def ensure_corpus():
    import corpus
    corpus.build(os.path.join(BUILD, "corpus.json"))


def tv_pipeline(run, nitems):
    """I->S: loop events of run / trace_changes recorded from the real code, validated against TV_Pipeline"""
    ensure_corpus()
    trace = os.path.join(BUILD, "pipe-%s.ndjson" % run.pid)
    pool = rule_pool(run, ["any"])      # generated rules, each with words assembled from its own elements, join the repository's rules in the workload
    summary, _ = run_harness(["record", "pipeline", trace, str(nitems)], env=dict(run.known_env(), VERIF_RULEPOOL=pool))
    run.add_summary("record_pipeline", summary, traces=False)
    res = run_tlc("TV_Pipeline", "tv/TV_Pipeline.tla", "tv/TV_Pipeline.cfg", env=dict(run.known_env(), TRACE=trace), timeout=3000, heap="10g")
    run.add_tlc("TV_Pipeline", res, "I->S: every hook event of apply_rule_groups / apply_rules_trace must be enabled in the loop-nest machine; memo (rule, word) -> result stays a function "
                                    "across run / permuted run / singleton runs / trace in one process; every returned value equals Pipeline!Run / Pipeline!Trace on memo")
    rejected = [x for x in res.printed if isinstance(x, str) and "rejected_record" in x]
    expected_states = summary["extra"].get("events", 0) + summary["vectors"] + summary["extra"].get("items", 0)
    run.cov["jobs"]["TV_Pipeline"].update({"events": summary["extra"].get("events", 0), "calls": summary["vectors"], "records": summary["extra"].get("items", 0), "rejected": len(rejected)})
    run.cov["traces_validated_against_impl"] += summary["vectors"]
    metas = open(trace + ".meta").read().split("\n")
    for x in rejected[:5]:
        r = json.loads(x)
        meta = json.loads(metas[r["rejected_record"] - 1]) if r["rejected_record"] - 1 < len(metas) else {}
        run.violation("TV_Pipeline", {"rejected": r, "workload": meta})
    if not rejected and res.distinct != expected_states:
        raise ToolError("TV_Pipeline consumed %d states, expected %d (events + returns + records)" % (res.distinct, expected_states))
    # the binding is real: a corrupted event must be rejected
    lines = open(trace).read().split("\n")
    rec = json.loads(lines[0])
    done = False
    for call in rec["calls"]:
        for ev in call["events"]:
            if ev[0] in ("RD", "TD") and not done:
                ev[1] = ev[1] + 1000; done = True
    if done:
        corrupt = os.path.join(BUILD, "pipe-%s-corrupt.ndjson" % run.pid)
        open(corrupt, "w").write(json.dumps(rec) + "\n")
        res2 = run_tlc("TV_Pipeline_selftest", "tv/TV_Pipeline.tla", "tv/TV_Pipeline.cfg", env=dict(run.known_env(), TRACE=corrupt), timeout=600, workers=2)
        ok = any(isinstance(x, str) and "rejected_record" in x for x in res2.printed)
        run.cov["jobs"]["TV_Pipeline"]["selftest_corrupted_event_rejected"] = ok
        if not ok:
            raise ToolError("selftest: TV_Pipeline accepted a corrupted trace")
    for f in (trace, trace + ".meta", os.path.join(BUILD, "pipe-%s-corrupt.ndjson" % run.pid)):
        try: os.remove(f)
        except OSError: pass


def rule_pool(run, modes):
    """generated rule texts (Grammar) for the pipeline workloads: ASTs from TLC, printed by the harness, kept only if the real parser accepts them"""
    paths = []
    for mode in modes:
        asts = gen_rules(run, mode)
        txt = os.path.join(BUILD, "pool-%s-%s.txt" % (run.pid, mode))
        p = __import__("subprocess").run([HARNESS, "ruletexts", asts, txt], stdout=__import__("subprocess").PIPE, stderr=__import__("subprocess").PIPE, text=True)
        if p.returncode != 0:
            raise ToolError("ruletexts failed: " + p.stderr[-1000:])
        os.remove(asts)
        paths.append(txt)
    return ":".join(paths)


def schedules(run, kinds, instances):
    ensure_corpus()
    pool = rule_pool(run, ["any", "pairs"])
    res = run_tlc("GEN_Pipeline", "gen/GEN_Pipeline.tla", "gen/GEN_Pipeline_%s.cfg" % run.tier, env=dict(run.known_env(), VERIF_KINDS=kinds, VERIF_INSTANCES=instances, VERIF_RULEPOOL=pool),
                  consumer=[HARNESS, "replay", "pipeline"], timeout=6000, workers=4)
    run.add_tlc("GEN_Pipeline", res, "S->I: schedules (%s) enumerated exhaustively by TLC within the bound, each instantiated %d times with real rules (repository tests, "
                                     "shipped Indo-European project) and words; the law checked on the real code" % (kinds, instances))


def mc_pipeline(run):
    mc_job(run, "MC_Pipeline", "mc/MC_Pipeline.tla", "mc/MC_Pipeline%s.cfg" % ("_thorough" if run.tier == "thorough" else ""),
           "M: C10/C11/C16 laws and OkAgree for EVERY rule function F: 2 rules x 2 words x 2 error values, all group lists of <= %d groups of <= 2 rules, all phrases <= 2 words" % (3 if run.tier == "thorough" else 2))


def c10(run):
    run.assumptions += TRUSTED[:1] + ["the guard of the property (intermediate output reads back as the same word) is evaluated structurally through the hooks; cases failing it are counted, not judged",
                                      "rule and word pools: repository tests + shipped IE project; slots are instantiated with a seeded generator"]
    mc_pipeline(run)
    mc_job(run, "MC_Stage", "mc/MC_Stage.tla", "mc/MC_Stage.cfg", "M: staging with the americanist flag explicit: holds for inputs not spelled americanist; the boundary of C10-KF1")
    r = run_tlc("MC_Stage_refute", "mc/MC_Stage.tla", "mc/MC_Stage_refute.cfg", timeout=600, expect_violation=True)
    run.add_tlc("MC_Stage_refute", r, "M: unrestricted staging law is refuted at model level (americanist flag) - reproduced on the real code by the probe in the replay (C10-KF1)")
    run.cov["jobs"]["MC_Stage_refute"]["refuted_as_expected"] = r.invariant_violated == "Compose"
    schedules(run, "c10", 12 if run.tier == "thorough" else 12)


def c11(run):
    run.assumptions += TRUSTED[:1] + ["'first failing word' is read per pipeline phase (aliases, words, rule syntax, then runtime in word order), see DESIGN.md C11"]
    mc_pipeline(run)
    schedules(run, "c11", 40 if run.tier == "thorough" else 100)
    tv_pipeline(run, 6000 if run.tier == "thorough" else 1200)


def c16(run):
    run.assumptions += TRUSTED[:1]
    mc_pipeline(run)
    schedules(run, "c16", 30 if run.tier == "thorough" else 60)
    tv_pipeline(run, 6000 if run.tier == "thorough" else 1200)


def gen_rules(run, mode, n=None):
    """S side: TLC runs the Grammar generator; the ASTs (one JSON line each) are written to .build/rules-<pid>-<mode>.json"""
    path = os.path.join(BUILD, "rules-%s-%s.json" % (run.pid, mode))
    res = run_tlc("GEN_Rules_" + mode, "gen/GEN_Rules.tla", "gen/GEN_Rules_%s_%s.cfg" % (mode, run.tier), env=run.known_env(), timeout=3000)
    with open(path, "w") as f:
        for x in res.printed:
            f.write(x + "\n")
    run.add_tlc("GEN_Rules_" + mode, res, "S: Grammar!%s generator, one rule AST per seed" % mode)
    run.cov["jobs"]["GEN_Rules_" + mode]["asts"] = len(res.printed)
    if not res.printed:
        raise ToolError("generator produced no rules")
    return path


def tv_laws(run, law, records_path, summary, classify=None, tag=""):
    """I->S: TLC evaluates the law on every recorded call; rejected records are mapped back to their inputs.
    Large recordings are validated in parts (TLC holds the deserialised records of one part in memory)."""
    nrec = summary["extra"].get("records", 0)
    CHUNK = 80000
    parts = [records_path]
    if nrec > CHUNK:
        parts, fh, n = [], None, 0
        for line in open(records_path):
            if n % CHUNK == 0:
                if fh: fh.close()
                parts.append("%s.part%d" % (records_path, len(parts)))
                fh = open(parts[-1], "w")
            fh.write(line); n += 1
        if fh: fh.close()
    rejected, distinct = [], 0
    for k, part in enumerate(parts):
        name = "TV_Laws_%s%s%s" % (law, tag, "" if len(parts) == 1 else "_part%d" % k)
        res = run_tlc(name, "tv/TV_Laws.tla", "tv/TV_Laws_%s.cfg" % law, env=dict(run.known_env(), TRACE=part), timeout=6000, heap="12g")
        run.add_tlc(name, res, "I->S: %s law of spec/tv/TV_Laws.tla evaluated by TLC on every recorded call" % law)
        rej = sorted(json.loads(x)["rejected_record"] for x in res.printed if isinstance(x, str) and "rejected_record" in x)
        run.cov["jobs"][name].update({"rejected": len(rej)})
        rejected += rej
        distinct += res.distinct
        if part != records_path:
            os.remove(part)
    run.cov["jobs"]["TV_Laws_%s%s%s" % (law, tag, "" if len(parts) == 1 else "_part0")].update({"records": nrec})
    run.cov["traces_validated_against_impl"] += nrec
    if distinct != 2 * nrec:
        raise ToolError("TV_Laws_%s examined %d states for %d records" % (law, distinct, nrec))
    if rejected:
        metas = {}
        want = set(rejected)
        for line in open(records_path + ".meta"):
            m = json.loads(line)
            if m["id"] in want:
                metas[m["id"]] = m
        for rid in rejected:
            m = metas.get(rid, {"id": rid})
            kf = classify(m) if classify else None
            if kf and kf in run.known_defs:
                h = run.known_hits.setdefault(kf, [0, m]); h[0] += 1
            else:
                run.violation("TV_Laws_" + law, {"rejected_record": m, "classified_as": kf})
    return rejected


def law_pipeline(run, law, modes, nwords, classify=None):
    ensure_corpus()
    for mode in modes:
        rules = gen_rules(run, mode)
        out = os.path.join(BUILD, "rec-%s-%s.ndjson" % (run.pid, mode))
        # the systematic strata of a law (position sweeps, tone joins, ...) do not depend on the generated rules: run them with the first mode only
        summary, _ = run_harness(["record", law, rules, out, str(nwords)], env=dict(run.known_env(), VERIF_SWEEPS="1" if mode == modes[0] else "0"), timeout=6000)
        run.add_summary("record_%s_%s" % (law, mode), summary, traces=False)
        tv_laws(run, law, out, summary, classify, tag="" if len(modes) == 1 else "_" + mode)
        # binding selftest on the first mode: a corrupted record must be rejected
        for f in (rules, out, out + ".meta"):
            try: os.remove(f)
            except OSError: pass


def classify_c06(m):
    """both former C06 findings (KF1: `$` next to the underline of an insertion, KF2: `%` inside an input set) were repaired (a94fa3c and the word-end fallback fix): nothing is classified any more"""
    return None


def c06(run):
    run.assumptions += TRUSTED + ["the planted literal q never occurs in generated words (inventory of harness/src/laws.rs)"]
    mc_job(run, "MC_Scan", "mc/MC_Scan.tla", "mc/MC_Scan%s.cfg" % ("_thorough" if run.tier == "thorough" else ""),
           "M: on the reference machine, a rule whose input matches no segment of the word never changes it (NoMatchStutter), exhaustively on the small domain")
    law_pipeline(run, "C06", ["planted"], 10 if run.tier == "thorough" else 5, classify_c06)


def c14(run):
    run.assumptions += TRUSTED
    mc_job(run, "MC_Scan", "mc/MC_Scan.tla", "mc/MC_Scan%s.cfg" % ("_thorough" if run.tier == "thorough" else ""),
           "M: on the reference machine a segment-only rule keeps the prosodic tier (ProsKept), exhaustively on the small domain")
    law_pipeline(run, "C14", ["segonly", "prosonly"], 10 if run.tier == "thorough" else 5)


def classify_c07(m):
    """C07-KF1: alpha on stress, and the only differences are secondary stress marks that became primary"""
    import re
    rule, before, after = m.get("rule", ""), m.get("before") or m.get("word", ""), m.get("after", "")      # `before`: the word as the renderer prints it (the typed text may be spelled differently)
    norm = lambda w: w.replace("'", "\u02c8").replace(",", "\u02cc").replace(":", "\u02d0")
    before = norm(before)
    if re.search(r"[A-Z]stress", rule) and len(before) == len(after) and before != after and all(a == b or (b == "\u02cc" and a == "\u02c8") for a, b in zip(after, before)):
        return "C07-KF1"
    return None


def c07(run):
    run.assumptions += TRUSTED
    law_pipeline(run, "C07", ["identity"], 10 if run.tier == "thorough" else 5, classify_c07)
    res = run_tlc("GEN_C07ctx", "gen/GEN_C07ctx.tla", "gen/GEN_C07ctx_%s.cfg" % run.tier, env=run.known_env(), consumer=[HARNESS, "replay", "C03"], timeout=3000)
    run.add_tlc("GEN_C07ctx", res, "S->I: rules `A > B / X=1 _ 1` over 4 targets x 4 outputs x 5 binders x every word <= %d segments in every syllabification, and `%% > [tone: 7] / %%=1 _ 1` over "
                                   "every 3-syllable word of a pool of 16 syllables; the reference result (fires exactly between identical bundles) replayed on the real interpreter" % (5 if run.tier == "thorough" else 4))


def c08(run):
    run.assumptions += TRUSTED
    mc_job(run, "MC_Scan", "mc/MC_Scan.tla", "mc/MC_Scan%s.cfg" % ("_thorough" if run.tier == "thorough" else ""),
           "M: WordOK is an invariant of the reference machine's transform actions (WordInv)")
    law_pipeline(run, "C08", ["any", "prosonly"], 10 if run.tier == "thorough" else 6)


def _split_arrow(rule):
    """input and the rest of a rule line, split at the first arrow (`>`, `=>`, `->`) that does not close a `<...>` structure; spaces are optional"""
    depth = 0
    for i, ch in enumerate(rule):
        if ch in "<\u27e8":
            depth += 1
        elif ch == "\u27e9":
            depth = max(0, depth - 1)
        elif ch == ">":
            if depth > 0:
                depth -= 1
                continue
            j = i - 1 if i > 0 and rule[i - 1] in "=-" else i
            return rule[:j], rule[i + 1:]
    return None


def _rule_parts(rule):
    m = _split_arrow(rule)
    if not m:
        return None
    inp, rest = m[0].strip(), m[1]
    exc = ""
    for sep in ("|", "//"):
        if sep in rest:
            rest, exc = rest.split(sep, 1)
            break
    out, ctx = (rest.split("/", 1) + [""])[:2]
    return {"inp": inp, "out": out.strip(), "ctx": ctx.strip(), "exc": exc.strip()}


def classify_c02(m):
    """signatures of the open C02 findings, evaluated on the failing vector (rule text, outcome, location)"""
    parts = _rule_parts(m.get("rule", ""))
    if not parts:
        return None
    out, det = m.get("outcome"), m.get("detail", "")
    if out in ("ok", "err") and m.get("trace_outcome") in ("budget", "panic"):
        out, det = m["trace_outcome"], m.get("trace_detail", "")       # run returned (e.g. an alias error came first) but the tracer did not
    insertion = parts["inp"] in ("*", "\u2205")
    if out == "budget" and insertion:        # the budget runs out at whichever loop head is reached last inside the non-terminating insertion loop
        env = parts["ctx"] + " " + parts["exc"]
        if any(ch in env for ch in "$#%(<\u27e8") or not parts["ctx"].replace("_", "").strip() or "$" in parts["out"] or "%" in parts["out"]:
            return "C02-KF1"
    if out == "budget" and not insertion and "$" in parts["inp"]:
        return "C02-KF4"
    if out == "panic" and "index out of bounds" in det and "@ word.rs" in det and insertion and ("$" in parts["out"] or "%" in parts["out"]) and ":[" in parts["out"]:
        return "C02-KF5"
    if out == "panic" and "index out of bounds" in det and "@ word.rs" in det and insertion and parts["exc"]:
        return "C02-KF2"
    if out == "panic" and "not implemented" in det and "@ subrule.rs" in det:
        import re
        whole = m.get("rule", "")
        for st in re.findall(r"[<\u27e8]([^>\u27e9]*)[>\u27e9]", whole):
            toks = st.split()
            if any(tk in ("...", "..", "\u2026") for tk in toks):
                i = min(k for k, tk in enumerate(toks) if tk in ("...", "..", "\u2026"))
                if any(re.fullmatch(r"\d+(:\[.*)?", tk) for tk in toks[i + 1:]):
                    return "C02-KF6"
    ells = ("...", "..", "\u2026")
    if out == "panic" and ("index out of bounds" in det or "Segment Position should be within bounds" in det) and "@ subrule.rs" in det and not insertion \
            and any(e in parts["inp"] for e in ells):
        return "C02-KF3"
    return None


def c02(run):
    run.assumptions += TRUSTED[:1] + ["step budget = 400 x (|word|+2)^(1+e) x (|rule|+2), e = number of ellipses/unbounded optionals/structures (capped at 3)",
                                      "raw character noise is produced by the harness, not by TLC (TLC is not a fuzzer); the specification only states what must hold of the executions"]
    mc_job(run, "MC_Scan", "mc/MC_Scan.tla", "mc/MC_Scan%s.cfg" % ("_thorough" if run.tier == "thorough" else ""),
           "M: the reference machine makes progress at every step and terminates (Progress, Terminates under weak fairness)")
    law_pipeline(run, "C02", ["any"], 12 if run.tier == "thorough" else 10, classify_c02)


def c17(run):
    run.assumptions += ["the fault catalogue spec/frozen/faults.json; candidates that do not fail in their class on this tree are dropped by calibration and listed in evidence",
                        "valid filler rules never match the fixed word, so a runtime fault fires at its own rule",
                        "TLC enumerates shapes, positions and faults and predicts the reported fault from the pipeline's phase order"]
    _, out = run_harness(["faults", "x"])
    counts = json.loads([l for l in out.split("\n") if l.startswith("FAULTS ")][0][7:])
    env = dict(run.known_env(), NSYN=counts["syn"], NLATE=counts["late"], NRUN=counts["run"], NWORD=counts["words"], NALIAS=counts["alias"])
    if min(counts["syn"], counts["run"], counts["words"], counts["alias"]) < 3:
        raise ToolError("fault catalogue collapsed under calibration: %s" % counts)
    res = run_tlc("GEN_C17", "gen/GEN_C17.tla", "gen/GEN_C17_%s.cfg" % run.tier, env=env, consumer=[HARNESS, "replay", "C17"], timeout=3000, workers=6)
    run.add_tlc("GEN_C17", res, "fault enumeration: TLC enumerates (project shape, position, fault) - thorough: also pairs of faults with the one the phase order says is reported; "
                                "the harness plants them in an otherwise valid project, calls run, formats the error under catch_unwind and checks location and caret span")
    run.cov["rule"] = ("every fault of the calibrated catalogue (%d syntax, %d runtime, %d word, %d alias) at every (group, line) of every project shape within the bound; "
                       "thorough adds a seeded 1/97 of all ordered pairs of faults; every case is non-trivial (an error must be reported)" % (counts["syn"] + counts["late"], counts["run"], counts["words"], counts["alias"]))
    run.cov["exhaustive"] = True


def text_job(run, mode, extra_env=None):
    env = dict(run.known_env(), VERIF_TEXT_MODE=mode)
    env.update(extra_env or {})
    res = run_tlc("GEN_Text", "gen/GEN_Text.tla", "gen/GEN_Text_%s.cfg" % run.tier, env=env, consumer=[HARNESS, "replay", "text"], timeout=6000)
    run.add_tlc("GEN_Text", res, "M + S->I: spec/Text.tla renderer (set of admissible renderings, rendering for the loaded order) and longest-match reader evaluated by TLC on every target bundle; "
                                 "the real get_as_grapheme / word parser must agree with both on every target")


def c09(run):
    run.assumptions += TRUSTED
    text_job(run, "C09")
    out = os.path.join(BUILD, "rec-C09.ndjson")
    rule_files = [gen_rules(run, "any"), gen_rules(run, "prosonly")]
    summary, _ = run_harness(["record", "C09", out, str(200000 if run.tier == "thorough" else 30000)] + rule_files, env=run.known_env(), timeout=6000)
    run.add_summary("record_C09_words", summary, traces=False)
    tv_laws(run, "C09", out, summary, classify=lambda m: m.get("kf") or None)
    for f in (out, out + ".meta") + tuple(rule_files):
        if os.environ.get("VERIF_KEEP"): break
        try: os.remove(f)
        except OSError: pass
    run.cov["rule"] = ("segments: every base, base + one diacritic (quick: a seeded third of the bases), thorough: + two diacritics and all single-feature changes on a seeded part; "
                       "words: random assemblies of such segments (and of segments without a spelling) with length, stress, tone and boundaries, plus the words that generated rules (full grammar and prosody-only) produce from random words; non-trivial = rendering needs at least one diacritic / the word is renderable")


def c01(run):
    run.assumptions += TRUSTED[:1] + ["K fresh processes draw different RandomState keys for std HashMap (sampled, cannot be set)",
                                      "the order-independence of the renderer is decided on the spec's set of admissible renderings over the loaded tables, which covers every iteration order"]
    ensure_corpus()
    # (a)+(b): renderer model: the real rendering must equal the spec's rendering for the loaded order in this process, and - unless the order is fixed by construction -
    # the set of admissible renderings must be a singleton
    text_job(run, "C01", {"VERIF_ORDER_FIXED": "1" if order_is_fixed() else "0"})
    # (c): K processes, the same workload, every observation keyed by its input; grouped by key (plumbing), judged by TLC
    K = 12 if run.tier == "thorough" else 6
    nitems = 400 if run.tier == "thorough" else 120
    import subprocess, collections
    groups = collections.defaultdict(list)
    total = 0
    procs = []
    pool = rule_pool(run, ["any", "alphaenv"])
    for p in range(K):
        out = os.path.join(BUILD, "c01-p%d.ndjson" % p)
        procs.append((out, subprocess.Popen([HARNESS, "record", "C01", out, str(p), str(nitems)], env=dict(os.environ, VERIF_RULEPOOL=pool, **{k: str(v) for k, v in run.known_env().items()}),
                                            stdout=subprocess.PIPE, stderr=subprocess.PIPE, text=True)))
    for out, pr in procs:
        so, se = pr.communicate(timeout=3000)
        if pr.returncode != 0:
            raise ToolError("C01 recorder failed: " + se[-2000:])
        for line in open(out):
            r = json.loads(line)
            groups[r["key"]].append([r["p"], r["n"], r["pos"], r["r"]])
            total += 1
        os.remove(out)
    merged = os.path.join(BUILD, "rec-C01.ndjson")
    with open(merged, "w") as f, open(merged + ".meta", "w") as m:
        for i, (k, obs) in enumerate(sorted(groups.items())):
            f.write(json.dumps({"id": i + 1, "key": k, "obs": obs}) + "\n")
            m.write(json.dumps({"id": i + 1, "key": k, "observations": len(obs), "distinct_results": len(set(o[3] for o in obs))}) + "\n")
    run.cov["jobs"]["record_C01"] = {"processes": K, "observations": total, "distinct_inputs": len(groups)}
    run.cov["evaluations"] += total
    run.cov["distinct_nontrivial"] += len(groups)
    tv_laws(run, "C01", merged, {"extra": {"records": len(groups)}})
    for f in (merged, merged + ".meta"):
        try: os.remove(f)
        except OSError: pass


def order_is_fixed():
    """the tables are generated twice in separate processes: if the renderer's iteration order differs, it is not fixed by construction"""
    import subprocess
    orders = []
    for i in range(3):
        d = os.path.join(BUILD, "order-%d" % i)
        subprocess.run([HARNESS, "tables", d], stdout=subprocess.PIPE, check=True)
        orders.append(json.load(open(os.path.join(d, "ids.json")))["order"])
        import shutil; shutil.rmtree(d, ignore_errors=True)
    return all(o == orders[0] for o in orders)


def c19(run):
    from vcheck import build_cli
    run.assumptions += ["the binary under test is built from /repo's working tree into .build/cli (unhooked)", "abstract line contents are instantiated by fixed strings in harness/src/cli.rs",
                        "output files are written into fresh scratch directories under .build (the binary asks before overwriting)"]
    binpath = build_cli()
    mc_job(run, "MC_Cli", "mc/MC_Cli.tla", "mc/MC_Cli.cfg", "M: ReadRsca(WriteRsca(p)) = p exactly for the well-formed projects (all projects of <= 2 groups), alias round trip")
    res = run_tlc("GEN_Cli", "gen/GEN_Cli.tla", "gen/GEN_Cli_%s.cfg" % run.tier, env=dict(run.known_env(), VERIF_ASCA_BIN=binpath), consumer=[HARNESS, "replay", "C19"], timeout=6000, workers=4)
    run.add_tlc("GEN_Cli", res, "S->I: every sequence of <= 5 rule-file lines / alias-file lines (sampled by the seed in the quick tier) and <= 3 word-file lines with what Cli.tla's readers make of it; "
                                "the real binary's conv asca, run -o and conv json round trip are compared with it and with asca::run")


def c20(run):
    from vcheck import build_cli
    run.assumptions += ["the binary under test is built from /repo's working tree into .build/cli (unhooked)", "rule files, group names and word files are fixed real texts in harness/src/seq.rs; the config is what TLC chose",
                        "MC_Seq uses the free interpretation of the stage functions (a lexicon = the sequence of operations that produced it), which covers every interpretation"]
    binpath = build_cli()
    mc_job(run, "MC_Seq", "mc/MC_Seq.tla", "mc/MC_Seq%s.cfg" % ("_thorough" if run.tier == "thorough" else ""),
           "M: the resolver with call stack and per-tag cache, for every config of %d tags (every from function, cyclic and dangling included) and every request order: "
           "validator accepts iff acyclic and no dangling reference; every delivered/cached result is the composition along the chain; termination" % (4 if run.tier == "thorough" else 3))
    mc_job(run, "MC_SeqFilter", "mc/MC_SeqFilter.tla", "mc/MC_SeqFilter.cfg",
           "M: the filter operators the plans are built from, against the manual's sentences, for every group list of <= 3 groups x every filter list of <= 3 names (other letter case, duplicates, a missing name): "
           "`!` keeps exactly the groups not named, once each, in file order; `~` gives exactly the named groups in the order named or an error; together they partition the file")
    res = run_tlc("GEN_Seq", "gen/GEN_Seq.tla", "gen/GEN_Seq_%s.cfg" % run.tier, env=dict(run.known_env(), VERIF_ASCA_BIN=binpath), consumer=[HARNESS, "replay", "C20"], timeout=6000, workers=4)
    run.add_tlc("GEN_Seq", res, "S->I: seeded project configs of 4 tags (chains, forks, cycles, dangling references, ! and ~ filters in mixed case, extra word files, every declaration order) with the plan "
                                "Seq.tla prescribes; real `asca seq -o -y`, `-t tag`, `conv tag -r` compared with the plan executed through asca::run; invalid configs must exit non-zero in bounded time")


def c15(run):
    run.assumptions += TRUSTED + ["alias texts are printed from the AST by harness/src/alias.rs; replacement strings are fresh (Q, Wx, ž)",
                                  "the printed-form model covers words without length and tone; (i) and (ii) are checked on random rules and words of the full generators"]
    ensure_corpus()
    res = run_tlc("GEN_C15", "gen/GEN_C15.tla", "gen/GEN_C15_%s.cfg" % run.tier, env=run.known_env(), consumer=[HARNESS, "replay", "C15"], timeout=6000)
    run.add_tlc("GEN_C15", res, "S->I: every ordered list of <= 2 romanisers from a pool (plain segments, sequences, matrices incl. features of absent nodes, + operator, $ rules) x every word <= %d segments "
                                "in every syllabification and stress pattern, with the printed form Alias!RomaniseFrom prescribes; compared with the real run" % (4 if run.tier == "thorough" else 3))
    pool = rule_pool(run, ["any"])
    out = os.path.join(BUILD, "rec-C15.ndjson")
    summary, _ = run_harness(["record", "C15", out, str(60000 if run.tier == "thorough" else 8000)], env=dict(run.known_env(), VERIF_RULEPOOL=pool))
    run.add_summary("record_C15", summary, traces=False)
    tv_laws(run, "C15", out, summary)
    for f in (out, out + ".meta"):
        try: os.remove(f)
        except OSError: pass


def c12(run):
    run.assumptions += TRUSTED + ["expansions are computed in TLA+ (Grammar!ExpandGroups, MirrorSeq, ExpandOptSide, MetAsVars and the broadcast of condensed rules); both texts are printed by harness/src/rules.rs and c12.rs"]
    res = run_tlc("GEN_C12", "gen/GEN_C12.tla", "gen/GEN_C12_%s.cfg" % run.tier, env=dict(run.known_env(), VERIF_NWORDS=12 if run.tier == "thorough" else 8), consumer=[HARNESS, "replay", "C12"], timeout=6000)
    run.add_tlc("GEN_C12", res, "S->I: (shorthand, expansion) pairs for the five documented shorthands (condensed rules with broadcast, `_,X`, group letters inside arbitrary rules of the full grammar, "
                                "bounded optionals in contexts and exceptions, `A B > &`), expansions computed in TLA+; the real interpreter run on both, structural results compared")


def c13(run):
    run.assumptions += TRUSTED[:1] + ["spec/frozen/lexicon.json and spec/Lexicon.tla are the frozen synonym tables (derived once at the pinned commit; the 171 advertised variants are a subset)",
                                      "respellings are applied to the printed rule / word by harness/src/c13.rs under the control of seeds drawn by TLC"]
    res = run_tlc("GEN_C13", "gen/GEN_C13.tla", "gen/GEN_C13_%s.cfg" % run.tier, env=run.known_env(), consumer=[HARNESS, "replay", "C13"], timeout=6000)
    run.add_tlc("GEN_C13", res, "S->I: (1) every member of every frozen synonym class x 4 case/spacing variants through the rule lexer and the alias lexer against the canonical spelling; "
                                "(2) rules of the full grammar with two independent respellings of every synonym-bearing token (arrows, |//, */empty set, ellipses, angle brackets, feature names, "
                                "blanks, trailing comments, alpha letters, variable numbers) and respelled words (stress, length, tie, ; and the input aliases): outcomes must be equal")


PROPS = {
    "C13": (c13, "model_checking"),
    "C12": (c12, "model_checking"),
    "C15": (c15, "model_checking"),
    "C20": (c20, "model_checking"),
    "C19": (c19, "model_checking"),
    "C01": (c01, "model_checking"),
    "C09": (c09, "model_checking"),
    "C17": (c17, "fault_enumeration"),
    "C02": (c02, "model_checking"),
    "C06": (c06, "model_checking"),
    "C07": (c07, "model_checking"),
    "C08": (c08, "model_checking"),
    "C14": (c14, "model_checking"),
    "C10": (c10, "model_checking"),
    "C11": (c11, "model_checking"),
    "C16": (c16, "model_checking"),
    "C03": (c03, "model_checking"),
    "C05": (c05, "model_checking"),
    "C18": (c18, "model_checking"),
    "C04": (c04, "model_checking"),
}


# (`bin/check <ID> --replay FILE` is handled in vcheck.main: the recorded run is repeated on the current tree)
