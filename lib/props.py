"""Per-property pipelines. Each takes a vcheck.Run and fills it."""
import json, os
from vcheck import run_tlc, run_harness, HARNESS, ToolError, log, NCPU, BUILD, ROOT, SPEC

TRUSTED = [
    "TLC 2 (tla2tools 1.8.0) and the TLA+ standard/Community modules evaluate the specification correctly",
    "the harness projection asca::Word <-> W (harness/src/proj.rs) and asca::verif::make_word are faithful",
    "spec/gen/Inventory.tla is regenerated at every run from the tables the code loaded (asca::verif::tables)",
]


def c04(run):
    run.assumptions += TRUSTED + ["rule texts are printed from the vector by harness/src/c04.rs::rule_text (3 fixed shapes)"]
    cfg = "gen/GEN_C04_%s.cfg" % run.tier
    res = run_tlc("GEN_C04", "gen/GEN_C04.tla", cfg, env=run.known_env(), consumer=[HARNESS, "replay", "C04"], timeout=3000)
    run.add_tlc("GEN_C04", res, "S->I: TLC enumerates (segment, modifier, shape) with the outcome Features demands; harness replays through the real rule pipeline; "
                                "the algebraic laws of Features (set-then-match, frame conditions) are checked as invariants on the same states")
    run.cov["exhaustive"] = True
    run.cov["rule"] = ("exhaustive over (target segment) x (26 features + 5 place nodes) x {+,-} x {set, match} plus alpha pairs (F,G,inverted) on "
                       "the bases selected by the seed (quick) or on all bases (thorough); quick: 365 base segments, thorough: base + every applicable single diacritic; "
                       "non-trivial = expected bundle differs from the input bundle or an error is expected")


PROPS = {
    "C04": (c04, "model_checking"),
}


def replay(run, path):
    raise ToolError("replay not implemented for " + run.pid)
