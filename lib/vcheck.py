"""Infrastructure of bin/check: building, running TLC, piping behaviours into the harness, evidence, findings."""
import json, os, re, subprocess, sys, time, shutil, hashlib

ROOT = os.path.abspath(os.path.join(os.path.dirname(os.path.abspath(__file__)), ".."))
BUILD = os.path.join(ROOT, ".build")
SPEC = os.path.join(ROOT, "spec")
HARNESS = os.path.join(BUILD, "target", "release", "asca-conform")
REPO = "/repo"
TLC_JAR = "/opt/veriftools/tla/tla2tools.jar:/opt/veriftools/tla/CommunityModules-deps.jar"
NCPU = os.cpu_count() or 8


class ToolError(Exception):
    pass


def log(*a):
    print("[check]", *a, file=sys.stderr, flush=True)


# ---------------------------------------------------------------------------------------------------
# building

def build_harness():
    t0 = time.time()
    env = dict(os.environ, CARGO_NET_OFFLINE="true")
    env.pop("CARGO_TARGET_DIR", None)          # the harness always builds into .build/target (harness/.cargo/config.toml)
    env.pop("RUSTFLAGS", None)
    lock = os.path.join(ROOT, "harness", "Cargo.lock")
    if not os.path.exists(lock):
        shutil.copy(os.path.join(REPO, "Cargo.lock"), lock)
    p = subprocess.run(["cargo", "build", "--release", "--offline"], cwd=os.path.join(ROOT, "harness"), env=env,
                       stdout=subprocess.PIPE, stderr=subprocess.STDOUT, text=True)
    if p.returncode != 0:
        sys.stderr.write(p.stdout[-6000:])
        raise ToolError("harness build failed")
    log("harness built in %.1fs" % (time.time() - t0))


def build_cli():
    """the unhooked `asca` binary, built from /repo's working tree into /verif/.build/cli"""
    t0 = time.time()
    env = dict(os.environ, CARGO_NET_OFFLINE="true")
    env.pop("CARGO_TARGET_DIR", None)
    p = subprocess.run(["cargo", "build", "--release", "--offline", "--manifest-path", os.path.join(REPO, "Cargo.toml"), "--bin", "asca",
                        "--target-dir", os.path.join(BUILD, "cli")], env=env, stdout=subprocess.PIPE, stderr=subprocess.STDOUT, text=True)
    if p.returncode != 0:
        sys.stderr.write(p.stdout[-6000:])
        raise ToolError("asca binary build failed")
    log("asca binary built in %.1fs" % (time.time() - t0))
    return os.path.join(BUILD, "cli", "release", "asca")


def gen_tables():
    p = subprocess.run([HARNESS, "tables", os.path.join(SPEC, "gen")], stdout=subprocess.PIPE, stderr=subprocess.STDOUT, text=True)
    if p.returncode != 0:
        raise ToolError("table generation failed: " + p.stdout[-2000:])


# ---------------------------------------------------------------------------------------------------
# TLC

STATS_RE = re.compile(r"^(\d+) states generated, (\d+) distinct states found, (\d+) states left on queue")
SIM_RE = re.compile(r"generated (\d+) traces|(\d+) states checked")
COV_RE = re.compile(r"^<(\w+) line (\d+), col (\d+) to line (\d+), col (\d+) of module (\w+)>: (\d+):(\d+)")


class TlcResult:
    def __init__(self):
        self.generated = 0
        self.distinct = 0
        self.lines = []          # non-vector lines printed by TLC
        self.coverage = {}       # action -> (distinct, generated)
        self.error = None        # first "Error:" text
        self.invariant_violated = None
        self.summary = None      # SUMMARY json of the consumer, if any
        self.wall = 0.0
        self.rc = None
        self.printed = []        # PRINT lines captured (no consumer)

    def merge_into(self, ev):
        ev["states"] += self.distinct
        ev["transitions"] += self.generated


def tlc_cmd(module_path, cfg, workers, extra, metadir, heap="6g"):
    lib = os.pathsep.join([SPEC, os.path.join(SPEC, "gen"), os.path.join(SPEC, "mc"), os.path.join(SPEC, "tv")])
    return ["java", "-XX:+UseParallelGC", "-Xmx" + heap, "-Xss512m", "-DTLA-Library=" + lib, "-cp", TLC_JAR, "tlc2.TLC",
            "-workers", str(workers), "-metadir", metadir, "-cleanup", "-noGenerateSpecTE", "-config", cfg] + extra + [module_path]


def run_tlc(name, module, cfg, workers=None, extra=None, env=None, consumer=None, timeout=3600, heap="6g", expect_violation=False, jvm=None):
    """Runs TLC on spec/<module> with spec/<cfg>. If `consumer` (argv) is given, TLC's stdout is piped into it and the
    consumer's stdout is parsed: `TLC| ` lines are TLC's own output, `SUMMARY {json}` is the consumer's verdict."""
    workers = workers or max(2, NCPU - 2)
    extra = extra or []
    metadir = os.path.join(BUILD, "tlc", name)
    shutil.rmtree(metadir, ignore_errors=True)
    os.makedirs(metadir, exist_ok=True)
    module_path = os.path.join(SPEC, module)
    cfg_path = os.path.join(SPEC, cfg)
    cmd = tlc_cmd(module_path, cfg_path, workers, extra, metadir, heap)
    if jvm:
        cmd = cmd[:1] + jvm + cmd[1:]
    e = dict(os.environ)
    e.pop("JAVA_TOOL_OPTIONS", None)
    if env:
        e.update({k: str(v) for k, v in env.items()})
    res = TlcResult()
    t0 = time.time()
    cwd = os.path.dirname(module_path)
    if consumer:
        tlc = subprocess.Popen(cmd, cwd=cwd, env=e, stdout=subprocess.PIPE, stderr=subprocess.STDOUT)
        cons = subprocess.Popen(consumer, stdin=tlc.stdout, stdout=subprocess.PIPE, stderr=subprocess.PIPE, env=e, text=True)
        tlc.stdout.close()
        try:
            out, err = cons.communicate(timeout=timeout)
        except subprocess.TimeoutExpired:
            tlc.kill(); cons.kill()
            raise ToolError("timeout in TLC job " + name)
        tlc.wait()
        res.rc = tlc.returncode
        if cons.returncode != 0:
            raise ToolError("consumer failed in job %s: rc=%s %s" % (name, cons.returncode, err[-3000:]))
        lines = out.split("\n")
        for l in lines:
            if l.startswith("TLC| "):
                res.lines.append(l[5:])
            elif l.startswith("SUMMARY "):
                res.summary = json.loads(l[8:])
    else:
        try:
            p = subprocess.run(cmd, cwd=cwd, env=e, stdout=subprocess.PIPE, stderr=subprocess.STDOUT, text=True, timeout=timeout)
        except subprocess.TimeoutExpired:
            raise ToolError("timeout in TLC job " + name)
        res.rc = p.returncode
        for l in p.stdout.split("\n"):
            if l.startswith('"PRINT ') or l.startswith('"{') or l.startswith('"['):
                try:
                    res.printed.append(json.loads(l))
                except Exception:
                    res.lines.append(l)
            else:
                res.lines.append(l)
    res.wall = time.time() - t0
    for i, l in enumerate(res.lines):
        m = STATS_RE.match(l)
        if m:
            res.generated, res.distinct = int(m.group(1)), int(m.group(2))
        m = COV_RE.match(l)
        if m:
            res.coverage["%s:%s" % (m.group(6), m.group(1))] = (int(m.group(7)), int(m.group(8)))
        if l.startswith("Error:") and res.error is None:
            res.error = "\n".join(res.lines[i:i + 25])
            m2 = re.search(r"Invariant (\w+) is violated", l)
            if m2:
                res.invariant_violated = m2.group(1)
        if "is violated" in l and res.invariant_violated is None:
            m2 = re.search(r"(?:Invariant|property) (\w+) is violated", l)
            if m2:
                res.invariant_violated = m2.group(1)
                if res.error is None:
                    res.error = "\n".join(res.lines[i:i + 25])
    shutil.rmtree(metadir, ignore_errors=True)
    if res.error and not (expect_violation and res.invariant_violated):
        if res.invariant_violated is None:
            raise ToolError("TLC error in job %s:\n%s" % (name, res.error))
    if consumer and res.summary is None:
        raise ToolError("no SUMMARY from consumer in job " + name + "\n" + "\n".join(res.lines[-20:]))
    log("tlc %-22s %8d distinct %9d generated  %.1fs%s" % (name, res.distinct, res.generated, res.wall,
        ("  vectors=%d mismatches=%d" % (res.summary["vectors"], res.summary["n_mismatches"])) if res.summary else ""))
    return res


def run_harness(args, env=None, timeout=3600, stdin_path=None):
    e = dict(os.environ)
    if env:
        e.update({k: str(v) for k, v in env.items()})
    t0 = time.time()
    try:
        p = subprocess.run([HARNESS] + args, env=e, stdout=subprocess.PIPE, stderr=subprocess.PIPE, text=True, timeout=timeout,
                           stdin=open(stdin_path) if stdin_path else None)
    except subprocess.TimeoutExpired:
        raise ToolError("timeout in harness " + " ".join(args))
    if p.returncode != 0:
        raise ToolError("harness %s failed rc=%s: %s" % (" ".join(args), p.returncode, p.stderr[-3000:]))
    summary = None
    for l in p.stdout.split("\n"):
        if l.startswith("SUMMARY "):
            summary = json.loads(l[8:])
    log("harness %-28s %.1fs %s" % (" ".join(args)[:28], time.time() - t0,
        ("vectors=%d mismatches=%d" % (summary["vectors"], summary["n_mismatches"])) if summary else ""))
    return summary, p.stdout


# ---------------------------------------------------------------------------------------------------
# known findings, evidence, verdict

def load_known(pid):
    path = os.path.join(ROOT, "known_findings.json")
    if not os.path.exists(path):
        return {}
    data = json.load(open(path))
    return {f["id"]: f for f in data.get("findings", []) if f.get("property") == pid and f.get("status", "open") == "open"}


class Run:
    """accumulates what one `check` invocation covered and found"""

    def __init__(self, pid, tier, seed, level):
        self.pid, self.tier, self.seed, self.level = pid, tier, seed, level
        self.t0 = time.time()
        self.known_defs = load_known(pid)
        self.cov = {"states": 0, "transitions": 0, "traces_validated_against_impl": 0, "samples": [], "jobs": {}, "evaluations": 0,
                    "distinct_nontrivial": 0}
        self.violations = []      # list of dicts written as replay files
        self.known_hits = {}      # id -> [count, example]
        self.assumptions = []
        self.notes = []

    def known_env(self):
        return {"VERIF_KNOWN": ",".join(sorted(self.known_defs.keys())), "VERIF_SEED": self.seed, "VERIF_TIER": self.tier}

    def add_tlc(self, name, res, what):
        self.cov["states"] += res.distinct
        self.cov["transitions"] += res.generated
        job = {"kind": what, "distinct_states": res.distinct, "states_generated": res.generated, "wall_s": round(res.wall, 1)}
        if res.coverage:
            job["action_coverage"] = {k: list(v) for k, v in res.coverage.items()}
        self.cov["jobs"][name] = job
        if res.summary:
            self.add_summary(name, res.summary)

    def add_summary(self, name, s, traces=True):
        job = self.cov["jobs"].setdefault(name, {})
        job.update({"vectors": s["vectors"], "nontrivial": s["nontrivial"], "agree": s["agree"], "disagreements": s["n_mismatches"]})
        if s.get("extra"):
            job["extra"] = s["extra"]
        if traces:
            self.cov["traces_validated_against_impl"] += s["vectors"]
        self.cov["evaluations"] += s["vectors"]
        self.cov["distinct_nontrivial"] += s["nontrivial"]
        for x in s.get("samples", []):
            if len(self.cov["samples"]) < 20:
                self.cov["samples"].append({"job": name, "case": x})
        for kid, v in s.get("known", {}).items():
            if kid in self.known_defs:
                h = self.known_hits.setdefault(kid, [0, v["example"]])
                h[0] += v["count"]
            else:
                # the harness classified it under a finding that is not (or no longer) listed as open: a violation
                self.violations.append({"job": name, "classified_as": kid, "count": v["count"], "case": v["example"]})
        for m in s.get("mismatches", []):
            self.violations.append({"job": name, "case": m})

    def add_informational(self, name, res, what):
        """a conformance job on behaviour no listed property speaks about: counted and shown, never a verdict"""
        self.cov["states"] += res.distinct
        self.cov["transitions"] += res.generated
        job = {"kind": what, "distinct_states": res.distinct, "states_generated": res.generated, "wall_s": round(res.wall, 1), "verdict": "informational (outside the listed property)"}
        s = res.summary or {}
        if s:
            job.update({"vectors": s["vectors"], "nontrivial": s["nontrivial"], "agree": s["agree"], "divergences": s["n_mismatches"]})
            if s.get("extra"):
                job["extra"] = s["extra"]
            job["divergence_examples"] = [{k: m.get(k) for k in ("rule", "word", "expected", "observed")} for m in s.get("mismatches", [])[:8]]
            self.cov["traces_validated_against_impl"] += s["agree"]
            if s["n_mismatches"]:
                print("NOTE: %s: %d of %d vectors diverge from the specification outside the listed property (not a verdict), e.g. %s"
                      % (name, s["n_mismatches"], s["vectors"], json.dumps(job["divergence_examples"][0], ensure_ascii=False)[:300]))
        self.cov["jobs"][name] = job

    def violation(self, job, case):
        self.violations.append({"job": job, "case": case})

    def finish(self):
        wall = time.time() - self.t0
        rec = getattr(self, "replaying", None)
        if rec is not None:
            same = [v for v in self.violations if v.get("job") == rec.get("job") and v.get("case") == rec.get("case")]
            same_job = [v for v in self.violations if v.get("job") == rec.get("job")]
            if same:
                log("replay: the recorded case fails again on the current tree: %s" % json.dumps(same[0], ensure_ascii=False)[:1200])
                print("VIOLATION property=%s replay=%s (reproduced)" % (self.pid, "recorded case"))
                return 1
            if same_job:
                log("replay: the recorded case does not recur, but the same job reports %d other violation(s); first: %s" % (len(same_job), json.dumps(same_job[0], ensure_ascii=False)[:800]))
                print("VIOLATION property=%s replay=%s (same job, different case)" % (self.pid, "recorded run"))
                return 1
            log("replay: the recorded run (tier %s, seed %s) repeated on the current tree: the recorded case does not recur (%d violations in other jobs)" % (self.tier, self.seed, len(self.violations)))
            return 0
        os.makedirs(os.path.join(ROOT, "evidence"), exist_ok=True)
        os.makedirs(os.path.join(BUILD, "replay"), exist_ok=True)
        self.cov["known_findings_hit"] = {k: v[0] for k, v in self.known_hits.items()}
        self.cov["rule"] = self.cov.get("rule", "cases are the vectors enumerated/simulated by TLC from the property's gen/ instance or the records validated by its tv/ instance; "
                                        "non-trivial = the expected outcome differs from the input (the rule fires / the law has a non-empty antecedent); counted by the harness")
        if not self.cov["samples"]:
            self.cov["samples"] = [{"note": "no sample recorded"}]
        ev = {"property_id": self.pid, "tier": self.tier, "seed": int(self.seed), "level": self.level, "coverage": self.cov,
              "assumptions": self.assumptions, "wall_s": round(wall, 1), "violations": len(self.violations), "notes": self.notes}
        json.dump(ev, open(os.path.join(ROOT, "evidence", self.pid + ".json"), "w"), indent=1, ensure_ascii=False)
        for kid, (n, ex) in sorted(self.known_hits.items()):
            d = self.known_defs[kid]
            print("KNOWN-FINDING: property=%s %s: %s (%d cases this run; e.g. %s)" % (self.pid, kid, d.get("summary", ""), n, json.dumps(ex, ensure_ascii=False)[:300]))
        if os.environ.get("VERIF_DUMP"):
            with open(os.environ["VERIF_DUMP"], "w") as f:
                for v in self.violations:
                    f.write(json.dumps(v, ensure_ascii=False) + "\n")
        if self.violations:
            paths = []
            for i, v in enumerate(self.violations[:10]):
                path = os.path.join(BUILD, "replay", "%s-%d.json" % (self.pid, i))
                json.dump({"property": self.pid, "tier": self.tier, "seed": self.seed, **v}, open(path, "w"), indent=1, ensure_ascii=False)
                paths.append(path)
            for p in paths[:3]:
                print("VIOLATION property=%s replay=%s" % (self.pid, p))
            log("%d violation(s); first: %s" % (len(self.violations), json.dumps(self.violations[0], ensure_ascii=False)[:1500]))
            return 1
        log("%s %s: held on everything explored (%d states, %d traces, %.0fs)" % (self.pid, self.tier, self.cov["states"], self.cov["traces_validated_against_impl"], wall))
        return 0


def main(argv):
    import props
    if not argv:
        print(__doc__); return 2
    pid = argv[0]
    tier = os.environ.get("VERIF_TIER", "quick")
    replay = None
    i = 1
    while i < len(argv):
        if argv[i] == "--tier":
            tier = argv[i + 1]; i += 2
        elif argv[i] == "--replay":
            replay = argv[i + 1]; i += 2
        else:
            print("unknown argument", argv[i]); return 2
    if os.environ.get("VERIF_TIER") in ("quick", "thorough") and "--tier" not in argv:
        tier = os.environ["VERIF_TIER"]
    seed = os.environ.get("VERIF_SEED", "1")
    try:
        seed = str(int(seed) % 99991)
    except ValueError:
        seed = str(int(hashlib.sha1(seed.encode()).hexdigest()[:8], 16))
    if pid not in props.PROPS:
        print("unknown property", pid); return 2
    try:
        os.makedirs(BUILD, exist_ok=True)
        build_harness()
        gen_tables()
        fn, level = props.PROPS[pid]
        if replay:
            # a check is a function of (tree, tier, seed): the recorded run is repeated on the current tree and the recorded case looked up among its violations
            rec = json.load(open(replay))
            if rec.get("property") != pid:
                print("replay file belongs to", rec.get("property")); return 2
            run = Run(pid, rec.get("tier", tier), str(rec.get("seed", seed)), level)
            run.replaying = rec
            fn(run)
            return run.finish()
        run = Run(pid, tier, seed, level)
        fn(run)
        return run.finish()
    except ToolError as e:
        log("TOOL ERROR:", e)
        return 2
