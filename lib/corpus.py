"""Builds .build/corpus.json from /repo at check time: the rules and words of the repository's own tests and the shipped
Indo-European example project. Nothing here is an oracle; it is only a pool of realistic inputs."""
import json, os, re, glob

REPO = "/repo"


def read_rsca(text):
    """the documented rule-file format (doc-cli.md): '@' name, indented rules, '#' description lines"""
    groups, r = [], {"name": "", "rule": [], "description": ""}
    def empty(g): return not g["name"] and not g["rule"] and not g["description"]
    for line in text.splitlines():
        line = line.strip()
        if line.startswith("@"):
            if not empty(r): groups.append(r)
            r = {"name": line[1:].strip(), "rule": [], "description": ""}
            continue
        if line.startswith("#"):
            if r["description"]: r["description"] += "\n"
            r["description"] += line[1:].strip()
            continue
        if not line:
            if not empty(r) and r["description"]:
                groups.append(r); r = {"name": "", "rule": [], "description": ""}
            continue
        if not r["description"]:
            r["rule"].append(line); continue
        groups.append(r)
        r = {"name": "", "rule": [line], "description": ""}
    groups.append(r)
    return groups


def unescape(s):
    return s.encode("utf-8").decode("unicode_escape").encode("latin-1").decode("utf-8") if "\\" in s else s


def build(out):
    src = open(os.path.join(REPO, "src/rule.rs"), encoding="utf-8").read()
    tests = src[src.index("mod rule_tests"):] if "mod rule_tests" in src else src
    rules = []
    for m in re.finditer(r'setup_rule\("((?:[^"\\]|\\.)*)"\)', tests):
        r = m.group(1).replace('\\"', '"').replace("\\\\", "\\")
        if r not in rules: rules.append(r)
    words = []
    for m in re.finditer(r'setup_word\("((?:[^"\\]|\\.)*)"\)', tests):
        w = m.group(1)
        if w not in words and " " not in w: words.append(w)
    ie = []
    for f in sorted(glob.glob(os.path.join(REPO, "examples/indo-european/**/*.rsca"), recursive=True)):
        ie.append({"file": os.path.relpath(f, REPO), "groups": read_rsca(open(f, encoding="utf-8").read())})
    ie_words = []
    for f in sorted(glob.glob(os.path.join(REPO, "examples/indo-european/*.wsca"))):
        for line in open(f, encoding="utf-8").read().splitlines():
            w = line.split("#")[0].strip()
            if w: ie_words.append(w)
    into, frm, state = [], [], None
    ap = os.path.join(REPO, "examples/indo-european/pie.alias")
    if os.path.exists(ap):
        for line in open(ap, encoding="utf-8").read().splitlines():
            line = line.strip()
            if line.startswith("@into"): state = "into"; continue
            if line.startswith("@from"): state = "from"; continue
            if line.startswith("#"): continue
            if state == "into": into.append(line)
            elif state == "from": frm.append(line)
    c = {"test_rules": rules, "test_words": words, "ie": ie, "ie_words": ie_words, "ie_alias": {"into": into, "from": frm}}
    os.makedirs(os.path.dirname(out), exist_ok=True)
    json.dump(c, open(out, "w"), ensure_ascii=False)
    return c


if __name__ == "__main__":
    c = build("/verif/.build/corpus.json")
    print(len(c["test_rules"]), "test rules;", len(c["test_words"]), "test words;", sum(len(x["groups"]) for x in c["ie"]), "IE groups in", len(c["ie"]), "files;", len(c["ie_words"]), "IE words")
