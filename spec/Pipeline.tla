---------------------------- MODULE Pipeline ----------------------------
(* L3: the library's pipelines over an UNINTERPRETED rule function.                                       *)
(*   run            aliases -> words -> rules -> apply (word-major loop nest) -> render  (lib.rs:185-203,310-318) *)
(*   trace_changes  the same phases with a group-major loop nest and change snapshots     (lib.rs:212-229)        *)
(* A rule is an integer id, a word an integer >= 0, an error a negative integer; F[<<rule, word>>] is     *)
(* the result of applying the rule. Group lists are sequences of sequences of rule ids; a phrase is a     *)
(* sequence of words. In mc/ instances F ranges over ALL functions on a tiny domain, so the theorems      *)
(* below hold for every possible rule behaviour, errors included.                                         *)
EXTENDS Integers, Sequences, FiniteSets

IsErr(v) == v < 0

UNDEFINED == -999                  \* applying a rule the function knows nothing about (only possible when F is a recorded history)
App(F, r, v) == IF <<r, v>> \in DOMAIN F THEN F[<<r, v>>] ELSE UNDEFINED
RECURSIVE ApplyRules(_, _, _)
ApplyRules(F, rs, v) == IF rs = <<>> THEN v ELSE IF IsErr(v) THEN v ELSE ApplyRules(F, Tail(rs), App(F, Head(rs), v))
RECURSIVE Flatten(_)
Flatten(gs) == IF gs = <<>> THEN <<>> ELSE Head(gs) \o Flatten(Tail(gs))

(* run: word-major. result = [err |-> 0 or the error, out |-> the words] *)
RECURSIVE RunLoop(_, _, _, _)
RunLoop(F, gs, p, acc) == IF p = <<>> THEN [err |-> 0, out |-> acc] ELSE
    LET r == ApplyRules(F, Flatten(gs), Head(p)) IN
    IF IsErr(r) THEN [err |-> r, out |-> <<>>] ELSE RunLoop(F, gs, Tail(p), Append(acc, r))
Run(F, gs, p) == RunLoop(F, gs, p, <<>>)

(* trace: group-major, with a snapshot comparison per group *)
RECURSIVE ApplyGroupToPhrase(_, _, _, _)
ApplyGroupToPhrase(F, g, p, j) == IF j > Len(p) THEN [err |-> 0, out |-> p] ELSE
    LET r == ApplyRules(F, g, p[j]) IN
    IF IsErr(r) THEN [err |-> r, out |-> <<>>] ELSE ApplyGroupToPhrase(F, g, [p EXCEPT ![j] = r], j + 1)
RECURSIVE TraceLoop(_, _, _, _, _)
TraceLoop(F, gs, i, p, ch) == IF i > Len(gs) THEN [err |-> 0, changes |-> ch, final |-> p] ELSE
    LET q == ApplyGroupToPhrase(F, gs[i], p, 1) IN
    IF q.err # 0 THEN [err |-> q.err, changes |-> <<>>, final |-> <<>>]
    ELSE TraceLoop(F, gs, i + 1, q.out, IF q.out # p THEN Append(ch, <<i, q.out>>) ELSE ch)
Trace(F, gs, p) == TraceLoop(F, gs, 1, p, <<>>)

Prefix(gs, n) == SubSeq(gs, 1, n)

(* C16: the trace tells the same story as the run *)
OkAgree(F, G, P) == (Run(F, G, P).err # 0) <=> (Trace(F, G, P).err # 0)
C16Law(F, G, P) == LET t == Trace(F, G, P)  r == Run(F, G, P) IN
   t.err = 0 =>
     /\ t.final = r.out
     /\ \A k \in 1..Len(t.changes) : /\ (k > 1 => t.changes[k][1] > t.changes[k-1][1])
                                      /\ t.changes[k][2] = Run(F, Prefix(G, t.changes[k][1]), P).out
                                      /\ Run(F, Prefix(G, t.changes[k][1]), P).out # Run(F, Prefix(G, t.changes[k][1] - 1), P).out
     /\ \A i \in 1..Len(G) : (~\E k \in 1..Len(t.changes) : t.changes[k][1] = i) => Run(F, Prefix(G, i), P).out = Run(F, Prefix(G, i - 1), P).out
     /\ (IF t.changes = <<>> THEN P ELSE t.changes[Len(t.changes)][2]) = r.out

(* C11: words are independent and ordered; the error is that of the first failing word *)
C11Law(F, G, P) == LET r == Run(F, G, P) IN
   /\ r.err = 0 => Len(r.out) = Len(P) /\ \A i \in 1..Len(P) : r.out[i] = Run(F, G, <<P[i]>>).out[1]
   /\ r.err # 0 => \E i \in 1..Len(P) : Run(F, G, <<P[i]>>).err = r.err /\ \A j \in 1..(i-1) : Run(F, G, <<P[j]>>).err = 0

(* C10: staging and regrouping. Text stage = render then parse; with Parse(Render(w)) = w (C09's law)    *)
(* a stage boundary is the identity on words, so staging is associativity of ApplyRules.                  *)
Staged(F, rs, k, v) == ApplyRules(F, SubSeq(rs, k + 1, Len(rs)), ApplyRules(F, SubSeq(rs, 1, k), v))
C10Split(F, rs, k, v) == Staged(F, rs, k, v) = ApplyRules(F, rs, v)
C10Regroup(F, gs1, gs2, P) == Flatten(gs1) = Flatten(gs2) => Run(F, gs1, P) = Run(F, gs2, P)
=============================================================================
