---------------------------- MODULE Grammar ----------------------------
(* A generator of rule ASTs covering doc/grammars/rule_peg.md: every production of INP_EL, OUT_EL,         *)
(* ENV_ELS (boundaries, ellipses, optionals, sets, syllables, structures, variables, alphas), environment *)
(* sets and condensed rules. It is a pure function of an integer seed: choice point `p` of derivation     *)
(* `seed` takes the value H(seed, p), so every generated rule is reproducible from its seed and TLC can   *)
(* enumerate seeds in parallel. (A nondeterministic derivation machine run with -simulate produced the    *)
(* same family of ASTs in the design probe; the seeded form was kept because each vector is then          *)
(* identified by one integer.)                                                                            *)
(* The generator aims at rules that are accepted by the parser and run; it does not try to be uniform.    *)
EXTENDS RuleAst, Inventory

H(seed, p) == LET M  == 46337                                  \* prime; every intermediate stays below 2^31 (TLC integers are 32-bit)
                  h0 == ((seed % M) * 31337 + 12345) % M
                  h1 == (h0 * 75 + 74) % 65537
                  pl == p % 997   ph == p \div 997
                  h2 == (h1 * (pl + 3) + ph * 7919 + 1) % M
                  h3 == (h2 * 31337 + ph * 613 + pl) % M
                  h4 == (h3 * h3 + h2) % M                      \* the square makes the value non-linear in p: neighbouring choice points (children p*8+i) are independent
              IN  (h4 * 75 + h1) % M
Pick(seed, p, n) == (H(seed, p) % n) + 1                     \* 1..n
Chance(seed, p, num, den) == H(seed, p) % den < num
C(p, i) == (p * 8 + i) % 1000003                              \* i-th child of choice point p

\* the inventory of literal segments the generator uses (ids into Base); q and x are reserved for planting
Lits == <<Ascii.a, Ascii.e, Ascii.i, Ascii.o, Ascii.u, Ascii.p, Ascii.t, Ascii.k, Ascii.b, Ascii.d, Ascii.s, Ascii.z, Ascii.m, Ascii.n, Ascii.l, Ascii.r, Ascii.j, Ascii.w, Ascii.h>>
        \o ExtraLits       \* cardinals spelled with characters that have inbuilt input aliases (g ? ! schwa phi), incl. multi-character graphemes
FeatPool == <<1, 2, 3, 4, 5, 7, 9, 12, 13, 16, 17, 19, 20, 21, 22, 25, 26>>          \* features used in generated matrices
SupraNames == <<"long", "overlong", "stress", "sec.stress">>

NodePool == <<"lab", "cor", "dor", "phr", "place">>
\* the value of a modifier: + / - mostly, now and then an alpha (A, B, inverted -A); an alpha is bound where it is first matched (input or context)
\* and used afterwards - generated rules may also use one that was never bound (a runtime error, which is a return value too)
GenSign(seed, p) == IF Chance(seed, C(p, 3), 1, 9) THEN (IF Chance(seed, C(p, 4), 1, 4) THEN "-A" ELSE IF Chance(seed, C(p, 5), 1, 3) THEN "B" ELSE "A")
                    ELSE Chance(seed, C(p, 1), 1, 2)
GenFeatMod(seed, p) == IF Chance(seed, C(p, 2), 1, 7)
                       THEN LET nd == NodePool[Pick(seed, p, Len(NodePool))] IN
                            <<"n", nd, IF Chance(seed, C(p, 6), 1, 6) THEN "D" ELSE IF nd = "place" THEN FALSE ELSE Chance(seed, C(p, 1), 1, 3)>>    \* [+place] is not a valid output;
                                                                                      \* node alphas use their own letter (D): one letter for a feature AND a node is ill-typed, its outcome depends on evaluation order
                       ELSE <<"f", FeatPool[Pick(seed, p, Len(FeatPool))], GenSign(seed, p)>>
NodePairs == << <<"dor", "phr">>, <<"cor", "phr">>, <<"lab", "dor">>, <<"lab", "phr">>, <<"cor", "dor">>, <<"lab", "cor">> >>
GenSegMods(seed, p) == IF Chance(seed, C(p, 5), 1, 14)
                       THEN LET np == NodePairs[Pick(seed, C(p, 6), Len(NodePairs))] IN << <<"n", np[1], FALSE>>, <<"n", np[2], FALSE>> >>     \* strip two place sub-nodes
                       ELSE [i \in 1..Pick(seed, p, 2) |-> GenFeatMod(seed, C(p, i))]
GenLenMod(seed, p) == <<"s", SupraNames[Pick(seed, p, 2)], Chance(seed, C(p, 1), 1, 2)>>
GenStressMod(seed, p) == <<"s", SupraNames[2 + Pick(seed, p, 2)], Chance(seed, C(p, 1), 1, 2)>>
GenToneMod(seed, p) == <<"t", <<0, 5, 51, 214, 50, 105>>[Pick(seed, p, 6)]>>

\* a segment-matching element: IPA (optionally with modifiers), matrix, group (optionally with modifiers)
GenSeg(seed, p) ==
  LET c == Pick(seed, p, 10) IN
  CASE c <= 3 -> Ipa(Lits[Pick(seed, C(p, 1), Len(Lits))])
    [] c = 4  -> WithMods(Ipa(Lits[Pick(seed, C(p, 1), Len(Lits))]), IF Chance(seed, C(p, 2), 1, 2) THEN <<GenLenMod(seed, C(p, 3))>> ELSE <<GenFeatMod(seed, C(p, 3))>>)
    [] c <= 6 -> Mx(GenSegMods(seed, C(p, 1)))
    [] c = 7  -> Mx(<<>>)
    [] c <= 9 -> Grp(Pick(seed, C(p, 1), 9))
    [] OTHER  -> WithMods(Grp(Pick(seed, C(p, 1), 9)), <<IF Chance(seed, C(p, 2), 1, 3) THEN GenStressMod(seed, C(p, 3)) ELSE GenFeatMod(seed, C(p, 3))>>)
GenSyl(seed, p) == SylEl(IF Chance(seed, p, 1, 2) THEN <<>> ELSE IF Chance(seed, C(p, 1), 1, 2) THEN <<GenStressMod(seed, C(p, 2))>> ELSE <<GenToneMod(seed, C(p, 2))>>)
\* SET_TRM <- SEG / BOUND / SYL
GenSetItem(seed, p) == LET c == Pick(seed, p, 12) IN IF c = 1 THEN SB ELSE IF c = 2 THEN GenSyl(seed, C(p, 1)) ELSE GenSeg(seed, C(p, 1))
GenSet(seed, p) == SetOf([i \in 1..(1 + Pick(seed, p, 2)) |-> GenSetItem(seed, C(p, i))])
GenStruct(seed, p) ==
  LET c == Pick(seed, p, 4) IN
  Struct(CASE c = 1 -> <<Grp(1), Grp(9)>>                       \* <CV>
           [] c = 2 -> <<Ell, GenSeg(seed, C(p, 1))>>            \* <...X>
           [] c = 3 -> <<GenSeg(seed, C(p, 1)), Ell>>            \* <X...>
           [] OTHER -> <<Grp(1), Grp(9), Grp(1)>>, <<>>)
\* a term of an environment / input
GenTerm(seed, p) ==
  LET c == Pick(seed, p, 12) IN
  CASE c <= 7 -> GenSeg(seed, C(p, 1))
    [] c <= 9 -> GenSet(seed, C(p, 1))
    [] c = 10 -> GenSyl(seed, C(p, 1))
    [] c = 11 -> GenStruct(seed, C(p, 1))
    [] OTHER  -> SB
\* what an optional may hold: segments mostly, but the parser also takes boundaries, syllables and sets (zero-width content matters: `($,0)`)
GenOptItem(seed, p) ==
  LET c == Pick(seed, p, 12) IN
  CASE c <= 8 -> GenSeg(seed, C(p, 1))
    [] c = 9  -> SB
    [] c = 10 -> WB
    [] c = 11 -> GenSyl(seed, C(p, 1))
    [] OTHER  -> GenSet(seed, C(p, 1))
GenOpt(seed, p) == Opt(<<GenOptItem(seed, C(p, 1))>> \o (IF Chance(seed, C(p, 2), 1, 4) THEN <<GenSeg(seed, C(p, 3))>> ELSE <<>>),
                       Pick(seed, C(p, 4), 2) - 1, <<0, 1, 2, 3>>[Pick(seed, C(p, 5), 4)])
FixOpt(o) == IF o.id > 0 /\ o.hi < o.id THEN [o EXCEPT !.hi = o.id + 1] ELSE o
GenEnvEl(seed, p) ==
  LET c == Pick(seed, p, 10) IN
  CASE c <= 6 -> GenTerm(seed, C(p, 1))
    [] c = 7  -> SB
    [] c = 8  -> FixOpt(GenOpt(seed, C(p, 1)))
    [] OTHER  -> GenSeg(seed, C(p, 1))
\* one side of an environment, in written order; `outer` = "l" (a # may start it) or "r" (a # may end it)
GenSide(seed, p, outer) ==
  LET n == Pick(seed, p, 6) - 2                                  \* -1..4 -> 0..3 elements, empty sides are common
      els == [i \in 1..(IF n < 0 THEN 0 ELSE IF n > 3 THEN 1 ELSE n) |-> GenEnvEl(seed, C(p, i))]
      els2 == IF Len(els) >= 2 /\ Chance(seed, C(p, 5), 1, 6) THEN <<els[1], Ell>> \o SubSeq(els, 2, Len(els)) ELSE els    \* an ellipsis between elements
      wb == Chance(seed, C(p, 6), 1, 5)
  IN IF ~wb THEN els2 ELSE IF outer = "l" THEN <<WB>> \o els2 ELSE Append(els2, WB)
GenEnv(seed, p) == Env(GenSide(seed, C(p, 1), "l"), GenSide(seed, C(p, 2), "r"))
NonEmptyEnv(seed, p) == LET e == GenEnv(seed, p) IN IF e = EmptyEnv THEN Env(<<GenSeg(seed, C(p, 3))>>, <<>>) ELSE e
\* 0 environments (most rules have none or one), 1, or an environment set of 2
GenEnvs(seed, p, allowNone) ==
  LET c == Pick(seed, p, 8) IN
  IF c <= 2 /\ allowNone THEN <<>>
  ELSE IF c <= 6 THEN <<NonEmptyEnv(seed, C(p, 1))>>
  ELSE <<NonEmptyEnv(seed, C(p, 1)), NonEmptyEnv(seed, C(p, 2))>>
GenExc(seed, p) == IF Chance(seed, p, 2, 3) THEN <<>> ELSE <<NonEmptyEnv(seed, C(p, 1))>>

\* outputs
GenOutSeg(seed, p) ==
  LET c == Pick(seed, p, 7) IN
  CASE c <= 3 -> Ipa(Lits[Pick(seed, C(p, 1), Len(Lits))])
    [] c <= 5 -> Mx(GenSegMods(seed, C(p, 1)))
    [] OTHER  -> Mx(<<LET c2 == Pick(seed, C(p, 1), 3) IN IF c2 = 1 THEN GenLenMod(seed, C(p, 2)) ELSE IF c2 = 2 THEN GenStressMod(seed, C(p, 2)) ELSE GenToneMod(seed, C(p, 2))>>)

(* rule classes *)
\* substitution: k input elements drawn from every INP_EL production (segments mostly; sets, $, %, structures, bound variables), an output element
\* for each, and - sometimes - one output more or one fewer than there are inputs (the surplus input is deleted, the surplus output inserted)
GenInEl(seed, p, i) ==
  LET c == Pick(seed, p, 16) IN
  CASE c <= 9  -> GenSeg(seed, C(p, 1))
    [] c = 10  -> IF i = 1 THEN GenSet(seed, C(p, 1)) ELSE GenSeg(seed, C(p, 1))
    [] c = 11  -> SB
    [] c = 12  -> GenSyl(seed, C(p, 1))
    [] c = 13  -> GenStruct(seed, C(p, 1))
    [] c = 14  -> LET e == GenSeg(seed, C(p, 1)) IN Bind(IF e.k = "ipa" THEN Grp(Pick(seed, C(p, 2), 9)) ELSE e, i)     \* only matrices and groups take `=n`
    [] OTHER   -> GenSeg(seed, C(p, 1))
GenOutFor(seed, p, e, i) ==
  CASE e.k = "set" -> SetOf([j \in 1..Len(e.items) |-> Ipa(Lits[Pick(seed, C(p, j), Len(Lits))])])
    [] e.k = "sb"  -> SB
    [] e.k \in {"syl", "struct"} -> Mx(<<IF Chance(seed, C(p, 1), 1, 2) THEN GenStressMod(seed, C(p, 2)) ELSE GenToneMod(seed, C(p, 2))>>)
    [] e.var > 0 /\ Chance(seed, C(p, 1), 1, 2) -> VarRef(e.var)
    [] OTHER -> GenOutSeg(seed, C(p, 3))
GenSub(seed, p) ==
  LET k == Pick(seed, p, 3)  IN
  LET inp == [i \in 1..(IF k = 3 THEN 2 ELSE k) |-> GenInEl(seed, C(C(p, 1), i), i)]
      out == [i \in 1..Len(inp) |-> GenOutFor(seed, C(C(p, 2), i), inp[i], i)]
      out2 == IF Chance(seed, C(p, 3), 1, 8) THEN Append(out, IF Chance(seed, C(p, 6), 1, 5) THEN SB ELSE Ipa(Lits[Pick(seed, C(p, 4), Len(Lits))]))
              ELSE IF Len(out) >= 2 /\ Chance(seed, C(p, 6), 1, 5) THEN SubSeq(out, 1, Len(out) - 1)
              ELSE out
  IN Rule(inp, out2, GenEnvs(seed, C(p, 5), TRUE), GenExc(seed, C(p, 7)))
GenDel(seed, p) ==
  LET inp == IF Chance(seed, p, 1, 5) THEN <<SB>> ELSE IF Chance(seed, C(p, 1), 1, 6) THEN <<GenSyl(seed, C(p, 2))>> ELSE [i \in 1..Pick(seed, C(p, 3), 2) |-> GenSeg(seed, C(C(p, 4), i))]
  IN Rule(inp, <<Empty>>, GenEnvs(seed, C(p, 5), FALSE), GenExc(seed, C(p, 6)))
GenIns(seed, p) ==
  LET out == IF Chance(seed, p, 1, 5) THEN <<SB>>
             ELSE [i \in 1..Pick(seed, C(p, 1), 2) |-> LET l == Ipa(Lits[Pick(seed, C(C(p, 2), i), Len(Lits))]) IN
                                                      IF Chance(seed, C(C(p, 6), i), 1, 4) THEN WithMods(l, <<GenFeatMod(seed, C(C(p, 7), i))>>) ELSE l]     \* e.g. `* > b:[Aplace] / [+nasal, Aplace]_r`
      e == NonEmptyEnv(seed, C(p, 3))
  IN Rule(<<Empty>>, out, <<e>>, IF Chance(seed, C(p, 4), 1, 4) THEN <<NonEmptyEnv(seed, C(p, 5))>> ELSE <<>>)
GenMet(seed, p) ==
  LET c == Pick(seed, p, 5) IN
  LET inp == CASE c <= 2 -> <<GenSeg(seed, C(p, 1)), GenSeg(seed, C(p, 2))>>
               [] c = 3  -> <<GenSeg(seed, C(p, 1)), Ell, GenSeg(seed, C(p, 2))>>
               [] c = 4  -> <<SB, GenSeg(seed, C(p, 1))>>
               [] OTHER  -> <<GenSeg(seed, C(p, 1)), SB>>
  IN Rule(inp, <<Met>>, GenEnvs(seed, C(p, 3), TRUE), GenExc(seed, C(p, 4)))
\* syllable structures in the input: deleted, swapped, replaced by a structure, or given a suprasegmental
GenStructIn(seed, p) ==
  LET c == Pick(seed, p, 5)
      s1 == GenStruct(seed, C(p, 1))   s2 == GenStruct(seed, C(p, 2))
      envs == GenEnvs(seed, C(p, 3), TRUE)   exc == GenExc(seed, C(p, 4))
  IN CASE c = 1 -> Rule(<<s1>>, <<Empty>>, envs, exc)
       [] c = 2 -> Rule(<<s1, s2>>, <<Met>>, envs, exc)
       [] c = 3 -> Rule(<<s1>>, <<Struct(<<Ipa(Lits[Pick(seed, C(p, 5), Len(Lits))]), Ipa(Lits[Pick(seed, C(p, 6), 5)])>>, <<>>)>>, envs, exc)
       [] c = 4 -> Rule(<<s1>>, <<Mx(<<IF Chance(seed, C(p, 5), 1, 2) THEN GenStressMod(seed, C(p, 6)) ELSE GenToneMod(seed, C(p, 6))>>)>>, envs, exc)
       [] OTHER -> Rule(<<GenSeg(seed, C(p, 5)), s1>>, <<Met>>, envs, exc)
\* an ellipsis inside the input of a substitution or a deletion (the manual only shows it with &)
GenEllIn(seed, p) ==
  LET a == GenSeg(seed, C(p, 1))   b == GenSeg(seed, C(p, 2))
      tail == IF Chance(seed, C(p, 3), 1, 3) THEN <<GenSeg(seed, C(p, 4))>> ELSE <<>>
      inp == <<a, Ell, b>> \o tail
  IN IF Chance(seed, C(p, 5), 1, 2) THEN Rule(inp, <<Empty>>, GenEnvs(seed, C(p, 6), TRUE), GenExc(seed, C(p, 7)))
     ELSE Rule(inp, [i \in 1..(2 + Len(tail)) |-> GenOutSeg(seed, C(C(p, 8), i))], GenEnvs(seed, C(p, 6), TRUE), GenExc(seed, C(p, 7)))
GenAny(seed) ==
  LET c == Pick(seed, 1, 24) IN
  CASE c <= 11 -> GenSub(seed, 2)
    [] c <= 15 -> GenDel(seed, 2)
    [] c <= 19 -> GenIns(seed, 2)
    [] c <= 21 -> GenMet(seed, 2)
    [] c <= 23 -> GenStructIn(seed, 2)
    [] OTHER   -> GenEllIn(seed, 2)

(* ---------------------------------------------------------------------------------------------------- *)
(* C06: plant a mandatory literal that the words never contain (q) into the input - for insertion into   *)
(* every context environment - of an arbitrary rule of the full grammar.                                  *)
PLANT == Ascii.q
IsSegish(e) == e.k \in {"ipa", "mx", "grp", "set"}
FirstSegish(inp) == LET S == { i \in 1..Len(inp) : IsSegish(inp[i]) } IN IF S = {} THEN 0 ELSE CHOOSE i \in S : \A j \in S : i <= j
PlantEnv(e) == Env(Append(e.b, Ipa(PLANT)), e.a)
Plant(r) ==
  IF r.inp[1].k = "empty"
  THEN [r EXCEPT !.ctx = [i \in 1..Len(r.ctx) |-> PlantEnv(r.ctx[i])]]
  ELSE LET i == FirstSegish(r.inp) IN
       IF i = 0 THEN [r EXCEPT !.inp = <<Ipa(PLANT)>> \o r.inp, !.out = IF r.out[1].k \in {"empty", "met"} THEN r.out ELSE <<Ipa(Ascii.a)>> \o r.out]
       ELSE [r EXCEPT !.inp[i] = Ipa(PLANT),
                      !.out = IF i <= Len(r.out) /\ r.out[i].k = "set" THEN [r.out EXCEPT ![i] = Ipa(Ascii.a)] ELSE r.out]
\* a second way of planting: the absent literal is APPENDED to the input (so it follows whatever the rule's own last element is:
\* a variable reference, an ellipsis, a boundary, a syllable ...); substitutions get a matching extra output
PlantAtEnd(r) ==
  IF r.inp[1].k = "empty" THEN Plant(r)
  ELSE [r EXCEPT !.inp = Append(r.inp, Ipa(PLANT)),
                 !.out = IF r.out[1].k \in {"empty", "met"} THEN r.out ELSE Append(r.out, Ipa(Ascii.a))]
\* inputs that capture and re-use a variable: X=1 Y 1 (the reference must repeat the captured segment)
GenVarInput(seed, p) ==
  LET x == Bind(IF Chance(seed, C(p, 1), 1, 2) THEN Grp(1) ELSE Mx(GenSegMods(seed, C(p, 2))), 1)
      mid == IF Chance(seed, C(p, 3), 1, 2) THEN <<GenSeg(seed, C(p, 4))>> ELSE <<>>
      inp == <<x>> \o mid \o <<VarRef(1)>>
  IN Rule(inp, IF Chance(seed, C(p, 5), 1, 3) THEN <<Empty>> ELSE [i \in 1..Len(inp) |-> IF i = 1 THEN VarRef(1) ELSE GenOutSeg(seed, C(C(p, 6), i))], GenEnvs(seed, C(p, 7), TRUE), <<>>)
\* further ways of planting. In the input: at any position, or inside a syllable structure (front or back).
InsertAt(sq, k, e) == SubSeq(sq, 1, k - 1) \o <<e>> \o SubSeq(sq, k, Len(sq))
PlantAtPos(r, k) ==
  IF r.inp[1].k = "empty" THEN Plant(r)
  ELSE [r EXCEPT !.inp = InsertAt(r.inp, k, Ipa(PLANT)),
                 !.out = IF r.out[1].k \in {"empty", "met"} THEN r.out ELSE InsertAt(r.out, IF k > Len(r.out) + 1 THEN Len(r.out) + 1 ELSE k, Ipa(Ascii.a))]
PlantInStructs(sq, front) == [i \in 1..Len(sq) |-> IF sq[i].k # "struct" THEN sq[i]
                                                   ELSE [sq[i] EXCEPT !.items = IF front /\ sq[i].items[1].k # "ell" THEN <<Ipa(PLANT)>> \o @ ELSE Append(@, Ipa(PLANT))]]
HasStruct(sq) == \E i \in 1..Len(sq) : sq[i].k = "struct"
\* for insertion, in every context environment: next to the underline on either side, at the far end of either side, or inside a structure
PlantEnvAt(e, mode) ==
  LET farL == IF e.b # <<>> /\ e.b[1].k = "wb" THEN 2 ELSE 1
      farR == IF e.a # <<>> /\ e.a[Len(e.a)].k = "wb" THEN Len(e.a) ELSE Len(e.a) + 1
  IN CASE mode = 1 -> Env(Append(e.b, Ipa(PLANT)), e.a)
       [] mode = 2 -> Env(e.b, <<Ipa(PLANT)>> \o e.a)
       [] mode = 3 -> Env(InsertAt(e.b, farL, Ipa(PLANT)), e.a)
       [] mode = 4 -> Env(e.b, InsertAt(e.a, farR, Ipa(PLANT)))
       [] OTHER    -> IF HasStruct(e.b) THEN Env(PlantInStructs(e.b, mode = 5), e.a)
                      ELSE IF HasStruct(e.a) THEN Env(e.b, PlantInStructs(e.a, mode = 5))
                      ELSE Env(e.b, <<Ipa(PLANT)>> \o e.a)
PlantIns(r, mode) == [r EXCEPT !.ctx = [i \in 1..Len(r.ctx) |-> PlantEnvAt(r.ctx[i], mode)]]
PlantWide(seed, r) ==
  IF r.inp[1].k = "empty" THEN PlantIns(r, Pick(seed, 910, 6))
  ELSE IF HasStruct(r.inp) /\ Chance(seed, 911, 2, 3) THEN [r EXCEPT !.inp = PlantInStructs(r.inp, Chance(seed, 912, 1, 2))]
  ELSE PlantAtPos(r, Pick(seed, 913, Len(r.inp) + 1))
\* the planted literal may carry a modifier block (`q:[-stress]`, `q:[+long]`): a literal with modifiers is matched through its feature matrix, not by
\* equality, and the words hold near-misses of q (the same segment with a secondary articulation, voiced, aspirated ...), never q itself
RECURSIVE DressEl(_, _)
DressEl(e, fm) == IF e = Ipa(PLANT) THEN WithMods(e, fm)
                  ELSE IF e.k \in {"set", "struct", "opt"} THEN [e EXCEPT !.items = [i \in 1..Len(e.items) |-> DressEl(e.items[i], fm)]] ELSE e
DressSeq(sq, fm) == [i \in 1..Len(sq) |-> DressEl(sq[i], fm)]
DressEnvs(envs, fm) == [i \in 1..Len(envs) |-> Env(DressSeq(envs[i].b, fm), DressSeq(envs[i].a, fm))]
DressPlant(r, fm) == [r EXCEPT !.inp = DressSeq(r.inp, fm), !.ctx = DressEnvs(r.ctx, fm)]
GenPlanted0(seed) == LET c == Pick(seed, 900, 6) IN
                    IF c = 1 THEN PlantAtEnd(GenVarInput(seed, 901))
                    ELSE IF c = 2 THEN PlantAtEnd(GenAny(seed))
                    ELSE IF c = 3 THEN Plant(GenAny(seed))
                    ELSE PlantWide(seed, GenAny(seed))
GenPlanted(seed) == IF Chance(seed, 920, 1, 3)
                    THEN DressPlant(GenPlanted0(seed), <<IF Chance(seed, 921, 1, 2) THEN GenStressMod(seed, 922) ELSE IF Chance(seed, 923, 1, 2) THEN GenLenMod(seed, 922) ELSE <<"f", 12, FALSE>>>>)
                    ELSE GenPlanted0(seed)

(* C14: rules classified by what their output may touch, with arbitrary environments and exceptions *)
PlainFeatMx(seed, p) == Mx(GenSegMods(seed, p))
GenSegOnly(seed) ==
  LET k == Pick(seed, 3, 2)
      ipaOut == Chance(seed, 4, 1, 2)
      inp == [i \in 1..k |-> LET e == GenSeg(seed, C(5, i)) IN IF e.k = "ipa" THEN Ipa(e.id) ELSE e]
      out == [i \in 1..k |-> IF ipaOut THEN Ipa(Lits[Pick(seed, C(6, i), Len(Lits))]) ELSE PlainFeatMx(seed, C(7, i))]
  IN [class |-> IF ipaOut THEN "seg-ipa" ELSE "seg-mx", rule |-> Rule(inp, out, GenEnvs(seed, 8, TRUE), GenExc(seed, 9))]
GenProsOnly(seed) ==
  LET c == Pick(seed, 3, 10)
      pm == IF Chance(seed, 4, 1, 2) THEN GenStressMod(seed, 5) ELSE GenToneMod(seed, 5)
      envs == GenEnvs(seed, 8, TRUE)   exc == GenExc(seed, 9)
  IN [class |-> "pros", rule |->
      CASE c <= 2 -> Rule(<<GenSyl(seed, 6)>>, <<Mx(<<pm>>)>>, envs, exc)
        [] c <= 4 -> Rule(<<LET e == GenSeg(seed, 6) IN IF e.k = "ipa" THEN Ipa(e.id) ELSE e>>, <<Mx(<<pm>>)>>, envs, exc)
        [] c = 5  -> Rule(<<SB>>, <<Empty>>, GenEnvs(seed, 8, FALSE), exc)
        [] c = 6  -> Rule(<<Empty>>, <<SB>>, <<NonEmptyEnv(seed, 8)>>, <<>>)
        [] c = 7  -> Rule(<<SB, GenSeg(seed, 6)>>, <<Met>>, envs, exc)
        \* the stress / secondary stress value is an alpha bound by a feature (or the length) of the input: `V:[Anas] > [Asec.stress]`
        [] c = 9  -> Rule(<<WithMods(Grp(9), <<<<"f", FeatPool[Pick(seed, 10, Len(FeatPool))], "A">>>>)>>, <<Mx(<<<<"s", SupraNames[2 + Pick(seed, 11, 2)], IF Chance(seed, 12, 1, 3) THEN "-A" ELSE "A">>>>)>>, envs, exc)
        [] c = 10 -> Rule(<<WithMods(IF Chance(seed, 13, 1, 2) THEN Grp(9) ELSE Mx(<<>>), <<<<"s", SupraNames[Pick(seed, 10, 2)], "A">>>>)>>, <<Mx(<<<<"s", SupraNames[2 + Pick(seed, 11, 2)], "A">>>>)>>, envs, exc)
        [] OTHER  -> Rule(<<GenSeg(seed, 6), SB>>, <<Met>>, envs, exc)]

(* C07: rules whose output merely restates the input through captures *)
BindableEl(seed, p) ==
  LET c == Pick(seed, p, 6) IN
  CASE c <= 2 -> Mx(GenSegMods(seed, C(p, 1)))
    [] c = 3  -> Mx(<<>>)
    [] c = 4  -> Grp(Pick(seed, C(p, 1), 9))
    [] c = 5  -> SylEl(<<>>)
    [] OTHER  -> Struct(<<Grp(1), Grp(9)>>, <<>>)
AlphaTargets == << <<"f", 12>>, <<"f", 7>>, <<"f", 3>>, <<"f", 16>>, <<"f", 20>>, <<"f", 21>>, <<"f", 17>>, <<"f", 4>>, <<"f", 25>>,
                   <<"n", "lab">>, <<"n", "cor">>, <<"n", "dor">>, <<"n", "phr">>, <<"n", "place">>, <<"n", "man">>, <<"n", "lar">>, <<"n", "rut">>,
                   <<"s", "long">>, <<"s", "stress">>, <<"s", "overlong">>, <<"s", "sec.stress">> >>
GenIdentity(seed) ==
  LET c == Pick(seed, 3, 3) IN
  IF c = 1 THEN
     LET k == Pick(seed, 4, 3)
         inp == [i \in 1..k |-> Bind(BindableEl(seed, C(5, i)), i)]
     IN [class |-> "vars", rule |-> Rule(inp, [i \in 1..k |-> VarRef(i)], GenEnvs(seed, 8, TRUE), GenExc(seed, 9))]
  ELSE IF c = 2 THEN
     LET a == AlphaTargets[Pick(seed, 4, Len(AlphaTargets))]
         m == <<a[1], a[2], "A">>
     IN [class |-> "alpha", rule |-> Rule(<<Mx(<<m>>)>>, <<Mx(<<m>>)>>, GenEnvs(seed, 8, TRUE), GenExc(seed, 9))]
  ELSE IF Chance(seed, 5, 1, 2) THEN [class |-> "alpha-syl", rule |-> Rule(<<SylEl(<<<<"s", "stress", "A">>>>)>>, <<Mx(<<<<"s", "stress", "A">>>>)>>, GenEnvs(seed, 8, TRUE), GenExc(seed, 9))]
  ELSE LET a == AlphaTargets[Pick(seed, 4, Len(AlphaTargets))]  b == AlphaTargets[Pick(seed, 6, Len(AlphaTargets))]      \* two alphas at once (the manual's `[Along, Boverlong]`)
           ms == IF a = b THEN <<<<a[1], a[2], "A">>>> ELSE <<<<a[1], a[2], "A">>, <<b[1], b[2], "B">>>>
           base == IF Chance(seed, 7, 1, 2) THEN Grp(9) ELSE Mx(<<>>)
       IN [class |-> "alpha2", rule |-> Rule(<<WithMods(base, ms)>>, <<Mx(ms)>>, GenEnvs(seed, 8, TRUE), GenExc(seed, 9))]

(* C10: "observer pairs" - an earlier rule writes a property (feature, length, stress, tone) that a later rule reads in its input or context. *)
(* Staging puts a text boundary between the two, so anything the rendering loses becomes visible.                                             *)
\* a writer that changes the make-up of a syllable (lengthens its vowel, gives it an onset, moves a boundary), then a reader that compares whole
\* syllables (a syllable variable re-used in its input): whatever the interpreter keeps about a syllable besides its contents must not matter
HiddenStatePair(seed) ==
  LET w == Pick(seed, 4, 4)
      writer == CASE w = 1 -> Rule(<<Grp(9)>>, <<Mx(<<<<"s", "long", TRUE>>>>)>>, <<Env(<<>>, <<WB>>)>>, <<>>)
                  [] w = 2 -> Rule(<<Empty>>, <<Ipa(Lits[Pick(seed, 5, Len(Lits))])>>, <<Env(<<SB>>, <<Grp(9)>>)>>, <<>>)
                  [] w = 3 -> Rule(<<Grp(9)>>, <<Mx(<<<<"s", "long", TRUE>>>>)>>, <<Env(<<Grp(1)>>, <<>>)>>, <<>>)
                  [] OTHER -> Rule(<<Empty>>, <<Ipa(Lits[Pick(seed, 5, Len(Lits))])>>, <<Env(<<WB>>, <<>>)>>, <<>>)
      r == Pick(seed, 6, 3)
      reader == CASE r = 1 -> Rule(<<Bind(SylEl(<<>>), 1), VarRef(1)>>, <<VarRef(1)>>, <<>>, <<>>)
                  [] r = 2 -> Rule(<<Bind(SylEl(<<>>), 1), VarRef(1)>>, <<Mx(<<<<"s", "stress", TRUE>>>>), Mx(<<<<"s", "stress", FALSE>>>>)>>, <<>>, <<>>)
                  [] OTHER -> Rule(<<Bind(SylEl(<<>>), 1)>>, <<Empty>>, <<Env(<<VarRef(1)>>, <<>>)>>, <<>>)
  IN <<writer, reader>>
GenObserverPair(seed) ==
  IF Chance(seed, 2, 1, 6) THEN HiddenStatePair(seed) ELSE
  LET c == Pick(seed, 3, 5)
      m == CASE c = 1 -> <<"f", FeatPool[Pick(seed, 4, Len(FeatPool))], Chance(seed, 5, 1, 2)>>
             [] c = 5 -> LET nd == NodePool[Pick(seed, 4, Len(NodePool))] IN <<"n", nd, IF nd = "place" THEN FALSE ELSE Chance(seed, 5, 1, 2)>>     \* e.g. [-place]: often a segment that cannot be spelled
             [] c = 2 -> GenLenMod(seed, 4)
             [] c = 3 -> GenStressMod(seed, 4)
             [] OTHER -> GenToneMod(seed, 4)
      onSyl == c \in {3, 4} /\ Chance(seed, 6, 1, 2)
      target == IF onSyl THEN SylEl(<<>>) ELSE IF Chance(seed, 7, 1, 2) THEN Grp(9) ELSE GenSeg(seed, 8)
      writer == Rule(<<target>>, <<Mx(<<m>>)>>, GenEnvs(seed, 9, TRUE), <<>>)
      obs == IF onSyl THEN SylEl(<<m>>) ELSE WithMods(IF Chance(seed, 10, 1, 2) THEN Grp(9) ELSE Mx(<<>>), <<m>>)
      reader == IF Chance(seed, 11, 1, 2)
                THEN Rule(<<obs>>, <<IF onSyl THEN Mx(<<GenToneMod(seed, 12)>>) ELSE GenOutSeg(seed, 12)>>, <<>>, <<>>)
                ELSE Rule(<<GenSeg(seed, 13)>>, <<GenOutSeg(seed, 14)>>, <<IF Chance(seed, 15, 1, 2) THEN Env(<<obs>>, <<>>) ELSE Env(<<>>, <<obs>>)>>, <<>>)
  IN <<writer, reader>>

(* ---------------------------------------------------------------------------------------------------- *)
(* C12: documented shorthands and their mechanically produced expansions (doc/doc.md "Condensed Rules",   *)
(* "Special Environment", "Groupings", "Optional Segments", "Metathesis Rules" / "Variables").            *)
\* group letter -> the matrix the manual gives for it (modifiers are appended)
RECURSIVE ExpandGroupsEl(_)
ExpandGroupsEl(e) == IF e.k = "grp" THEN [Mx(GroupMx[e.id] \o e.fm) EXCEPT !.var = e.var]
                     ELSE IF e.k \in {"set", "struct", "opt"} THEN [e EXCEPT !.items = [i \in 1..Len(e.items) |-> ExpandGroupsEl(e.items[i])]]
                     ELSE e
ExpandGroupsSeq(es) == [i \in 1..Len(es) |-> ExpandGroupsEl(es[i])]
ExpandGroupsEnvs(envs) == [i \in 1..Len(envs) |-> Env(ExpandGroupsSeq(envs[i].b), ExpandGroupsSeq(envs[i].a))]
ExpandGroups(r) == Rule(ExpandGroupsSeq(r.inp), ExpandGroupsSeq(r.out), ExpandGroupsEnvs(r.ctx), ExpandGroupsEnvs(r.exc))
\* `_,X` -> `X_` then `_mirror(X)`
MirrorSeq(es) == [i \in 1..Len(es) |-> es[Len(es) + 1 - i]]
\* an optional (X, lo:hi) in an environment side -> the environments with lo..hi explicit repetitions (hi > 0)
RECURSIVE RepSeq(_, _)
RepSeq(items, n) == IF n = 0 THEN <<>> ELSE items \o RepSeq(items, n - 1)
ExpandOptSide(side, i, n) == SubSeq(side, 1, i - 1) \o RepSeq(side[i].items, n) \o SubSeq(side, i + 1, Len(side))
\* metathesis of two elements -> capture both and write them back swapped
MetAsVars(a, b, ctx, exc) == Rule(<<Bind(a, 1), Bind(b, 2)>>, <<VarRef(2), VarRef(1)>>, ctx, exc)

PlainSeg(seed, p) == LET e == GenSeg(seed, p) IN IF e.k = "ipa" THEN Ipa(e.id) ELSE e
SimpleSide(seed, p) == [i \in 1..(Pick(seed, p, 3) - 1) |-> PlainSeg(seed, C(p, i))]
SimpleEnv(seed, p) == LET e == Env(SimpleSide(seed, C(p, 1)), SimpleSide(seed, C(p, 2))) IN IF e = EmptyEnv THEN Env(<<PlainSeg(seed, C(p, 3))>>, <<>>) ELSE e
GenShorthand(seed) ==
  LET c == Pick(seed, 3, 5) IN
  CASE c = 1 ->     \* condensed rule: k sub-rules; each of inputs / outputs / environments is either given k times or once (broadcast)
        LET k == 1 + Pick(seed, 4, 2)
            shO == Chance(seed, 6, 1, 3)  shC == Chance(seed, 7, 1, 2)  hasC == Chance(seed, 8, 2, 3)
            hasE == Chance(seed, 14, 1, 2)  shE == Chance(seed, 15, 1, 2)                 \* the exception block is broadcast (or given k times) on its own
            shI == Chance(seed, 5, 1, 3) /\ ~(shO /\ (shC \/ ~hasC) /\ (shE \/ ~hasE))      \* at least one part is given k times, otherwise the line is a single rule
            inpOf(i) == <<PlainSeg(seed, C(10, IF shI THEN 1 ELSE i))>>
            outOf(i) == <<GenOutSeg(seed, C(11, IF shO THEN 1 ELSE i))>>
            ctxOf(i) == IF hasC THEN <<SimpleEnv(seed, C(12, IF shC THEN 1 ELSE i))>> ELSE <<>>
            excOf(i) == IF hasE THEN <<SimpleEnv(seed, C(13, IF shE THEN 1 ELSE i))>> ELSE <<>>
        IN [kind |-> "condensed", short |-> <<>>,
            parts |-> [inps |-> [i \in 1..(IF shI THEN 1 ELSE k) |-> inpOf(i)], outs |-> [i \in 1..(IF shO THEN 1 ELSE k) |-> outOf(i)],
                       ctxs |-> IF hasC THEN [i \in 1..(IF shC THEN 1 ELSE k) |-> ctxOf(i)[1]] ELSE <<>>,
                       excs |-> IF hasE THEN [i \in 1..(IF shE THEN 1 ELSE k) |-> excOf(i)[1]] ELSE <<>>],
            long |-> [i \in 1..k |-> Rule(inpOf(i), outOf(i), ctxOf(i), excOf(i))]]
    [] c = 2 ->     \* special environment _,X
        LET x == [i \in 1..Pick(seed, 4, 2) |-> IF Chance(seed, C(5, i), 1, 5) /\ i = 1 THEN WB ELSE PlainSeg(seed, C(6, i))]
            inp == <<PlainSeg(seed, 7)>>  out == <<GenOutSeg(seed, 8)>>
        IN [kind |-> "special-env", short |-> <<>>, parts |-> [inp |-> inp, out |-> out, x |-> x],
            long |-> <<Rule(inp, out, <<Env(x, <<>>)>>, <<>>), Rule(inp, out, <<Env(<<>>, MirrorSeq(x))>>, <<>>)>>]
    [] c = 3 ->     \* group letters
        LET r == GenAny(seed) IN [kind |-> "groups", short |-> <<r>>, parts |-> <<>>, long |-> <<ExpandGroups(r)>>]
    [] c = 4 ->     \* an optional in a context or exception
        LET lo == Pick(seed, 4, 3) - 1   hi == lo + Pick(seed, 5, 2)
            o == Opt(<<PlainSeg(seed, 6)>> \o (IF Chance(seed, 7, 1, 4) THEN <<PlainSeg(seed, 8)>> ELSE <<>>), lo, hi)
            pre == SimpleSide(seed, 9)  post == SimpleSide(seed, 10)
            before == Chance(seed, 11, 1, 2)  inExc == Chance(seed, 12, 1, 4)
            side == pre \o <<o>> \o post
            envOf(s) == IF before THEN Env(s, <<>>) ELSE Env(<<>>, s)
            inp == <<PlainSeg(seed, 13)>>  out == <<GenOutSeg(seed, 14)>>
            longEnvs == [n \in 1..(hi - lo + 1) |-> envOf(ExpandOptSide(side, Len(pre) + 1, lo + n - 1))]
        IN [kind |-> "optional", short |-> <<IF inExc THEN Rule(inp, out, <<>>, <<envOf(side)>>) ELSE Rule(inp, out, <<envOf(side)>>, <<>>)>>, parts |-> <<>>,
            long |-> <<IF inExc THEN Rule(inp, out, <<>>, longEnvs) ELSE Rule(inp, out, longEnvs, <<>>)>>]
    [] OTHER ->     \* A B > &  vs  A=1 B=2 > 2 1  (matrices and groups)
        LET a == IF Chance(seed, 4, 1, 2) THEN Grp(Pick(seed, 5, 9)) ELSE Mx(GenSegMods(seed, 5))
            b == IF Chance(seed, 6, 1, 2) THEN Grp(Pick(seed, 7, 9)) ELSE Mx(GenSegMods(seed, 7))
            ctx == IF Chance(seed, 8, 1, 2) THEN <<SimpleEnv(seed, 9)>> ELSE <<>>
        IN [kind |-> "metathesis", short |-> <<Rule(<<a, b>>, <<Met>>, ctx, <<>>)>>, parts |-> <<>>, long |-> <<MetAsVars(a, b, ctx, <<>>)>>]

(* ---------------------------------------------------------------------------------------------------- *)
(* C03 over the FULL inventory: rules of the basic fragment F0 (input one segment element, output one IPA *)
(* segment or one feature matrix, context / exception / environment set over segment elements, sets,     *)
(* # and $) with literals drawn from all cardinals and matrices over all 26 features.                     *)
F0Lit(seed, p) == Ipa(Pick(seed, p, Len(Base)))
\* up to three DISTINCT features (a matrix naming one feature twice with opposite signs has no documented meaning)
F0Mx(seed, p) == LET b == Pick(seed, C(p, 7), NFeat) IN Mx([i \in 1..Pick(seed, p, 3) |-> <<"f", ((b + 7 * i) % NFeat) + 1, Chance(seed, C(p, i + 3), 1, 2)>>])
F0Seg(seed, p) == LET c == Pick(seed, p, 8) IN
                  CASE c <= 3 -> F0Lit(seed, C(p, 1)) [] c <= 5 -> F0Mx(seed, C(p, 1)) [] c = 6 -> Mx(<<>>) [] OTHER -> Grp(Pick(seed, C(p, 1), 9))
F0El(seed, p) == IF Chance(seed, p, 1, 5) THEN SetOf([i \in 1..(1 + Pick(seed, C(p, 1), 2)) |-> F0Seg(seed, C(p, 1 + i))]) ELSE F0Seg(seed, C(p, 5))
F0SideEl(seed, p) == IF Chance(seed, p, 1, 6) THEN SB ELSE F0El(seed, C(p, 1))
F0Side(seed, p, outer) ==
  LET n == Pick(seed, p, 4) - 1                       \* 0..3 -> at most 2 elements
      els == [i \in 1..(IF n > 2 THEN 1 ELSE n) |-> F0SideEl(seed, C(p, i))]
      wb == Chance(seed, C(p, 6), 1, 6)
  IN IF ~wb THEN els ELSE IF outer = "l" THEN <<WB>> \o els ELSE Append(els, WB)
F0Env(seed, p) == LET e == Env(F0Side(seed, C(p, 1), "l"), F0Side(seed, C(p, 2), "r")) IN IF e = EmptyEnv THEN Env(<<F0El(seed, C(p, 3))>>, <<>>) ELSE e
GenF0(seed) ==
  LET c == Pick(seed, 3, 6)
      ctx == IF c = 1 THEN <<>> ELSE IF c = 6 THEN <<F0Env(seed, 4), F0Env(seed, 5)>> ELSE <<F0Env(seed, 4)>>
      exc == IF Chance(seed, 6, 1, 3) THEN <<F0Env(seed, 7)>> ELSE <<>>
      inp == F0El(seed, 10)
      single == IF Chance(seed, 8, 1, 2) THEN F0Lit(seed, 9) ELSE F0Mx(seed, 9)
      \* an input set may be answered by an output set of the same size (literals or matrices)
      out == IF inp.k = "set" /\ Chance(seed, 11, 1, 2) THEN SetOf([i \in 1..Len(inp.items) |-> IF Chance(seed, C(12, i), 1, 2) THEN F0Lit(seed, C(13, i)) ELSE F0Mx(seed, C(13, i))]) ELSE single
  IN Rule(<<inp>>, <<out>>, ctx, exc)
(* Fragment F1 over the FULL inventory (for ScanX): k segment elements in, then k outputs / `*` / `&`, or an insertion of one or two literals; *)
(* contexts and exceptions as in F0 (no `$` next to an insertion).                                                                          *)
F1Out(seed, p) == IF Chance(seed, p, 1, 2) THEN F0Lit(seed, C(p, 1)) ELSE F0Mx(seed, C(p, 1))
F1InsSide(seed, p, outer) ==
  LET n == Pick(seed, p, 3) - 1
      els == [i \in 1..n |-> F0El(seed, C(p, i))]
      wb == Chance(seed, C(p, 6), 1, 6)
  IN IF ~wb THEN els ELSE IF outer = "l" THEN <<WB>> \o els ELSE Append(els, WB)
GenF1(seed) ==
  LET c == Pick(seed, 3, 8)
      k == Pick(seed, 11, 3)
      ctx == IF Chance(seed, 12, 1, 3) THEN <<>> ELSE <<F0Env(seed, 4)>>
      exc == IF Chance(seed, 6, 1, 4) THEN <<F0Env(seed, 7)>> ELSE <<>>
      inp == [i \in 1..k |-> F0El(seed, C(13, i))]
  IN CASE c <= 3 -> Rule(inp, [i \in 1..k |-> F1Out(seed, C(14, i))], ctx, exc)
       [] c <= 5 -> Rule(inp, <<Empty>>, ctx, exc)
       [] c <= 6 -> Rule(IF k = 1 THEN inp \o <<F0El(seed, 15)>> ELSE inp, <<Met>>, ctx, exc)
       [] OTHER  -> LET e == Env(F1InsSide(seed, 16, "l"), F1InsSide(seed, 17, "r")) IN
                    Rule(<<Empty>>, [i \in 1..Pick(seed, 18, 2) |-> F0Lit(seed, C(19, i))], <<IF e = EmptyEnv THEN Env(<<F0El(seed, 20)>>, <<>>) ELSE e>>, IF Chance(seed, 21, 1, 5) THEN <<F0Env(seed, 22)>> ELSE <<>>)
(* Rules in which the binding tables are worked hard: an alpha bound by the input, an environment SET whose alternatives bind further alphas  *)
(* (so that a failing alternative has something to undo), and an output that uses the input's alpha. For C01: whatever the tables' internal   *)
(* order, the same call must give the same result every time.                                                                                  *)
GenAlphaEnv(seed) ==
  LET f(i) == FeatPool[Pick(seed, 30 + i, Len(FeatPool))]
      base == IF Chance(seed, 3, 1, 2) THEN Grp(1) ELSE IF Chance(seed, 4, 1, 2) THEN Grp(9) ELSE Mx(<<>>)
      inp == WithMods(base, <<<<"f", f(1), "A">>>>)
      out == Mx(<<<<"f", f(2), IF Chance(seed, 5, 1, 3) THEN "-A" ELSE "A">>>>)
      binder(i) == Mx(<<<<"f", f(2 + i), IF Chance(seed, 40 + i, 1, 2) THEN "B" ELSE "A">>>>)
      alt(i) == LET side == <<binder(i)>> \o (IF Chance(seed, 50 + i, 2, 3) THEN <<PlainSeg(seed, 60 + i)>> ELSE <<>>) IN
                IF Chance(seed, 70 + i, 1, 2) THEN Env(<<>>, side) ELSE Env(MirrorSeq(side), <<>>)
      n == 2 + Pick(seed, 6, 2) - 1
  IN Rule(<<inp>>, <<out>>, [i \in 1..n |-> alt(i)], IF Chance(seed, 7, 1, 4) THEN <<alt(9)>> ELSE <<>>)
=============================================================================
