---------------------------- MODULE Scan ----------------------------
(* L2: the reference interpreter of sound-change rules, written from doc/doc.md ("The Basics",            *)
(* "Special Characters", "Sets", "Environment Sets", "Propagation"), NOT from the code.                   *)
(*                                                                                                        *)
(* Fragment F0 (property C03): input = one segment-matching element, output = one IPA segment or one      *)
(* feature matrix, contexts and exceptions over segment elements, sets, # and $.                          *)
(*                                                                                                        *)
(* Semantics: the word is scanned left to right. At each position whose segment matches the input, the    *)
(* environments are tested: the before side against the left neighbours AS ALREADY REWRITTEN, the after   *)
(* side against the right neighbours AS YET UNREWRITTEN. The rule fires iff some context environment      *)
(* matches (or there is none) and no exception environment matches. `#` matches iff the position is       *)
(* outside the word; `$` matches iff the position is at a syllable edge (word edges included) and         *)
(* consumes nothing. Everything else - other segments, syllable boundaries, stress, tone - is unchanged.  *)
(*                                                                                                        *)
(* Constant-only module. The explicit state machine (FindMatch / EnvReject / Transform / Finish) is in    *)
(* mc/MC_Scan.tla; RunScan below is its recursive composition, proved equal to it there by TLC.           *)
EXTENDS RuleAst, WordStruct, Inventory

(* flat view of a word: the segment tier plus, per position, the index of its syllable *)
RECURSIVE SylIx(_, _)
SylIx(ss, i) == IF i > Len(ss) THEN <<>> ELSE [j \in 1..Len(ss[i].g) |-> i] \o SylIx(ss, i + 1)
Flat(w) == [segs |-> SegTier(w), syl |-> SylIx(w.s, 1)]
\* rebuild a word with the same syllable structure, stress and tone from a rewritten segment tier
RECURSIVE Rebuild(_, _, _, _)
Rebuild(ss, segs, i, off) == IF i > Len(ss) THEN <<>> ELSE
    <<[ss[i] EXCEPT !.g = SubSeq(segs, off + 1, off + Len(ss[i].g))]>> \o Rebuild(ss, segs, i + 1, off + Len(ss[i].g))
Unflat(w, segs) == [w EXCEPT !.s = Rebuild(w.s, segs, 1, 0)]

(* does a segment element match the segment s *)
RECURSIVE ElemMatch(_, _)
ElemMatch(e, s) ==
  CASE e.k = "ipa" -> s = Base[e.id] /\ MatchMods(s, e.fm)
    [] e.k = "mx"  -> MatchMods(s, e.fm)
    [] e.k = "grp" -> MatchMods(s, GroupMx[e.id]) /\ MatchMods(s, e.fm)
    [] e.k = "set" -> \E i \in 1..Len(e.items) : ElemMatch(e.items[i], s)
    [] OTHER -> FALSE

(* one side of an environment. es = the elements still to match, nearest first; q = position of the      *)
(* nearest not yet consumed neighbour; d = -1 walking left, +1 walking right; fw = flat word              *)
RECURSIVE MatchSide(_, _, _, _)
MatchSide(fw, es, q, d) ==
  IF es = <<>> THEN TRUE ELSE
  LET e == Head(es)  n == Len(fw.segs)  out == q < 1 \/ q > n IN
  CASE e.k = "wb" -> out /\ MatchSide(fw, Tail(es), q, d)
    [] e.k = "sb" -> (IF out THEN TRUE ELSE IF q - d < 1 \/ q - d > n THEN TRUE ELSE fw.syl[q] # fw.syl[q - d]) /\ MatchSide(fw, Tail(es), q, d)
    [] OTHER      -> (IF out THEN FALSE ELSE ElemMatch(e, fw.segs[q])) /\ MatchSide(fw, Tail(es), q + d, d)

Reverse(s) == [i \in 1..Len(s) |-> s[Len(s) + 1 - i]]
EnvMatch(fw, p, env) == MatchSide(fw, Reverse(env.b), p - 1, -1) /\ MatchSide(fw, env.a, p + 1, 1)
AnyEnv(fw, p, envs) == \E i \in 1..Len(envs) : EnvMatch(fw, p, envs[i])
EnvOK(fw, p, r) == (r.ctx = <<>> \/ AnyEnv(fw, p, r.ctx)) /\ ~AnyEnv(fw, p, r.exc)

(* the output applied to the matched segment *)
Rewrite(s, o) == IF o.k = "ipa" THEN ApplyFeatsOnly(Base[o.id], o.fm) ELSE ApplyFeatsOnly(s, o.fm)
(* an output SET answers an input set of the same size (manual, "Sets": `{p, t, k} > {b, d, g}`): the segment is rewritten by the member *)
(* that stands where the first input member matching it stands                                                                         *)
FirstMember(e, s) == LET S == { i \in 1..Len(e.items) : ElemMatch(e.items[i], s) } IN CHOOSE i \in S : \A j \in S : i <= j
RewriteBy(e, s, o) == IF o.k = "set" THEN Rewrite(s, o.items[FirstMember(e, s)]) ELSE Rewrite(s, o)

InputAt(fw, r, p) == ElemMatch(r.inp[1], fw.segs[p])
\* least position >= cur whose segment matches the input, 0 if none
RECURSIVE NextMatch(_, _, _)
NextMatch(fw, r, cur) == IF cur > Len(fw.segs) THEN 0 ELSE IF InputAt(fw, r, cur) THEN cur ELSE NextMatch(fw, r, cur + 1)

(* the scan as a recursive composition of the machine's steps; result = [segs, steps, ok]                 *)
(* steps = <<position found, environment verdict>> per iteration; ok = "no two equal segments adjacent    *)
(* inside a syllable at any stage" (the side condition of C03)                                            *)
NoAdjEqF(fw) == \A i \in 2..Len(fw.segs) : ~(fw.segs[i] = fw.segs[i - 1] /\ fw.syl[i] = fw.syl[i - 1])
RECURSIVE ScanFrom(_, _, _, _, _)
ScanFrom(fw, r, cur, steps, ok) ==
  LET p == NextMatch(fw, r, cur) IN
  IF p = 0 THEN [segs |-> fw.segs, steps |-> steps, ok |-> ok]
  ELSE IF EnvOK(fw, p, r)
       THEN LET fw2 == [fw EXCEPT !.segs[p] = RewriteBy(r.inp[1], fw.segs[p], r.out[1])] IN
            ScanFrom(fw2, r, p + 1, Append(steps, <<p, TRUE>>), ok /\ NoAdjEqF(fw2))
       ELSE ScanFrom(fw, r, p + 1, Append(steps, <<p, FALSE>>), ok)
RunScanF(w, r) == ScanFrom(Flat(w), r, 1, <<>>, NoAdjEqF(Flat(w)))
RunScan(w, r) == Unflat(w, RunScanF(w, r).segs)

(* compact forms for printing *)
SegT(s) == <<s.rut, s.man, s.lar, s.lab, s.cor, s.dor, s.phr>>
WordT(w) == [s |-> [i \in 1..Len(w.s) |-> [g |-> [j \in 1..Len(w.s[i].g) |-> SegT(w.s[i].g[j])], st |-> w.s[i].st, t |-> w.s[i].t]], am |-> w.am]
=============================================================================
