---------------------------- MODULE PlacePacking ----------------------------
(* C18: the implementation packs the four optional place sub-nodes into one Option<u16>                   *)
(*      1111_11_11_111111_11 = presence bits [lab cor dor phr] | lab(2) | cor(2) | dor(6) | phr(2).      *)
(* This module states (a) the abstract value a packed place stands for, (b) the abstract get/set         *)
(* algebra of the manual's structure, (c) a concrete model of the setters on the packed word, and       *)
(* (d) the refinement between (c) and (b). TLC checks (d) for every one of the 2^16+1 packed values;     *)
(* the harness checks that the real accessors compute exactly (c).                                       *)
EXTENDS Integers, Sequences, FiniteSets

None == -1                              \* the packed value None, and an absent sub-node
Sub == <<"lab", "cor", "dor", "phr">>
PBit(x) == CASE x = "lab" -> 32768 [] x = "cor" -> 16384 [] x = "dor" -> 8192 [] x = "phr" -> 4096
Off(x)  == CASE x = "lab" -> 1024  [] x = "cor" -> 256   [] x = "dor" -> 4    [] x = "phr" -> 1
Size(x) == CASE x = "lab" -> 4     [] x = "cor" -> 4     [] x = "dor" -> 64   [] x = "phr" -> 4

HasBit(u, m) == (u \div m) % 2 = 1
Field(u, x) == (u \div Off(x)) % Size(x)
Present(u, x) == u # None /\ HasBit(u, PBit(x))

(* (a) abstraction *)
Abs(u) == [x \in {"lab", "cor", "dor", "phr"} |-> IF Present(u, x) THEN Field(u, x) ELSE None]
AllAbsent(a) == \A x \in DOMAIN a : a[x] = None
WellFormed(u) == u = None \/ (/\ \E x \in DOMAIN Abs(u) : Present(u, x)
                              /\ \A x \in DOMAIN Abs(u) : ~Present(u, x) => Field(u, x) = 0)

(* (b) abstract algebra *)
GetSub(a, x) == a[x]
SetSub(a, x, v) == [a EXCEPT ![x] = v]

(* (c) concrete model of set_labial / set_coronal / set_dorsal / set_pharyngeal (src/place.rs) *)
SetBit(u, m) == IF HasBit(u, m) THEN u ELSE u + m
ClrBit(u, m) == IF HasBit(u, m) THEN u - m ELSE u
PutField(u, x, v) == u - Field(u, x) * Off(x) + v * Off(x)
Normalise(u) == IF u # None /\ \A i \in 1..4 : ~HasBit(u, PBit(Sub[i])) THEN None ELSE u     \* no sub-node left: the place is absent
ImplSet(u, x, v) ==
  Normalise(IF v # None
            THEN IF u # None THEN PutField(SetBit(u, PBit(x)), x, v) ELSE PBit(x) + (v % Size(x)) * Off(x)
            ELSE IF u # None THEN PutField(ClrBit(u, PBit(x)), x, 0) ELSE None)
ImplGet(u, x) == IF Present(u, x) THEN Field(u, x) ELSE None

(* (d) refinement and the laws of the property; r is ImplSet(u, x, v) *)
RefinesR(u, x, v, r)   == Abs(r) = SetSub(Abs(u), x, v)                              \* get-after-set and the frame condition at once
GetSetLawR(x, v, r)    == ImplGet(r, x) = v
FrameLawR(u, x, r)     == \A y \in {"lab", "cor", "dor", "phr"} : y # x => ImplGet(r, y) = ImplGet(u, y)
LastGoneR(r)           == AllAbsent(Abs(r)) => r = None
NoResidueR(x, v, r)    == v = None => (r = None \/ (~Present(r, x) /\ Field(r, x) = 0))
KeepsWellFormedR(u, r) == WellFormed(u) => WellFormed(r)
AllLaws(u, x, v) == LET r == ImplSet(u, x, v) IN
    /\ RefinesR(u, x, v, r) /\ GetSetLawR(x, v, r) /\ FrameLawR(u, x, r) /\ LastGoneR(r) /\ NoResidueR(x, v, r) /\ KeepsWellFormedR(u, r)
Refines(u, x, v) == RefinesR(u, x, v, ImplSet(u, x, v))
=============================================================================
