---------------------------- MODULE WordStruct ----------------------------
(* Words as the specification sees them (the same shape the harness projects asca::Word to):            *)
(*   word = [s |-> <<syllable, ...>>, am |-> BOOLEAN]      (am = americanist flag)                       *)
(*   syllable = [g |-> <<segment, ...>>, st |-> "U" | "P" | "S", t |-> tone as a number, 0 = none]       *)
(*   segment = Features record [rut, man, lar, lab, cor, dor, phr]                                       *)
EXTENDS Features

Syl(g, st, t) == [g |-> g, st |-> st, t |-> t]
Word(s) == [s |-> s, am |-> FALSE]
Rep(x, n) == [i \in 1..n |-> x]

RECURSIVE DigitsOK(_, _)
DigitsOK(t, k) == IF t = 0 THEN k <= 4 ELSE (t % 10 # 0 /\ DigitsOK(t \div 10, k + 1))     \* at most four digits, none of them 0
ToneOK(t) == t >= 0 /\ DigitsOK(t, 0)

(* C08: well-formedness of a word *)
SylOK(sy) == Len(sy.g) >= 1 /\ sy.st \in {"U", "P", "S"} /\ ToneOK(sy.t) /\ \A i \in 1..Len(sy.g) : SegOK(sy.g[i])
WordOK(w) == Len(w.s) >= 1 /\ \A i \in 1..Len(w.s) : SylOK(w.s[i])

(* tiers (C14) *)
RECURSIVE Concat(_, _)
Concat(ss, i) == IF i > Len(ss) THEN <<>> ELSE ss[i].g \o Concat(ss, i + 1)
SegTier(w) == Concat(w.s, 1)
ProsTier(w) == [i \in 1..Len(w.s) |-> <<w.s[i].st, w.s[i].t, Len(w.s[i].g)>>]

(* units: maximal runs of identical segments inside a syllable; a unit is <<start, length>> *)
RECURSIVE RunLen(_, _)
RunLen(g, i) == IF i < Len(g) /\ g[i + 1] = g[i] THEN 1 + RunLen(g, i + 1) ELSE 1
NoRuns(w) == \A i \in 1..Len(w.s) : \A j \in 2..Len(w.s[i].g) : w.s[i].g[j] # w.s[i].g[j - 1]
=============================================================================
