---------------------------- MODULE Cli ----------------------------
(* The command line's file readers and writers as line-oriented machines (doc/doc-cli.md;                  *)
(* src/cli/parse.rs, src/cli/util.rs). Text is abstracted: a file is a sequence of lines, a line is         *)
(* [k |-> kind, v |-> content id] with content 0 = the empty string. Kinds of a rule file line (after      *)
(* trimming): "name" (starts with @), "desc" (starts with #), "blank", "rule" (anything else).               *)
(* A rule group is [name, rules, desc] with desc = the sequence of its description lines (<<0>> = "").      *)
EXTENDS Integers, Sequences, FiniteSets

Empty == [name |-> 0, rules |-> <<>>, desc |-> <<0>>]
IsEmpty(r) == r = Empty
L(k, v) == [k |-> k, v |-> v]

(* writer: util::to_rsca_format *)
WriteGroup(g) == <<L("name", g.name)>> \o [i \in 1..Len(g.rules) |-> L("rule", g.rules[i])] \o [i \in 1..Len(g.desc) |-> L("desc", g.desc[i])]
RECURSIVE WriteFrom(_, _)
WriteFrom(gs, i) == IF i > Len(gs) THEN <<>> ELSE WriteGroup(gs[i]) \o WriteFrom(gs, i + 1)
WriteRsca(gs) == WriteFrom(gs, 1)

(* reader: parse::parse_rsca - a five-way classifier of lines with one pending group *)
AddDesc(d, v) == IF d = <<0>> THEN <<v>> ELSE Append(d, v)       \* "\n"-joined; the first line replaces the empty description
RECURSIVE ReadLines(_, _, _)
ReadLines(ls, r, acc) ==
  IF ls = <<>> THEN Append(acc, r)
  ELSE LET l == Head(ls)  t == Tail(ls) IN
    CASE l.k = "name"  -> ReadLines(t, [Empty EXCEPT !.name = l.v], IF IsEmpty(r) THEN acc ELSE Append(acc, r))
      [] l.k = "desc"  -> ReadLines(t, [r EXCEPT !.desc = AddDesc(r.desc, l.v)], acc)
      [] l.k = "blank" -> IF ~IsEmpty(r) /\ r.desc # <<0>> THEN ReadLines(t, Empty, Append(acc, r)) ELSE ReadLines(t, r, acc)
      [] l.k = "rule"  -> IF r.desc = <<0>> THEN ReadLines(t, [r EXCEPT !.rules = Append(r.rules, l.v)], acc)
                          ELSE ReadLines(t, [Empty EXCEPT !.rules = <<l.v>>], Append(acc, r))
ReadRsca(ls) == ReadLines(ls, Empty, <<>>)

(* well-formed for the round trip: what TLC found to be exactly the round-trippable projects (mc/MC_Cli)    *)
(*   - no description starts with an empty line unless it is the single empty line                          *)
(*   - no group is completely empty unless it is the last one                                               *)
DescOK(d) == d = <<0>> \/ d[1] # 0
WellFormed(gs) == /\ Len(gs) >= 1
                  /\ \A i \in 1..Len(gs) : DescOK(gs[i].desc) /\ (IsEmpty(gs[i]) => i = Len(gs))
RoundTrip(gs) == ReadRsca(WriteRsca(gs)) = gs

(* word files: parse::parse_wsca - every line gives one entry: the text before the first '#', trimmed        *)
(* a line is [w |-> word id or 0, c |-> has comment]; the entry is just w                                    *)
ReadWsca(ls) == [i \in 1..Len(ls) |-> ls[i].w]

(* alias files: parse::parse_alias / util::to_alias. line kinds: "into", "from" (section headers), "comment", *)
(* "entry" (v = content id, 0 for a blank line). Entries before any header are skipped.                        *)
RECURSIVE ReadAliasFrom(_, _, _, _)
ReadAliasFrom(ls, st, into, from) ==
  IF ls = <<>> THEN [into |-> into, from |-> from]
  ELSE LET l == Head(ls)  t == Tail(ls) IN
    CASE l.k = "into"    -> ReadAliasFrom(t, "into", into, from)
      [] l.k = "from"    -> ReadAliasFrom(t, "from", into, from)
      [] l.k = "comment" -> ReadAliasFrom(t, st, into, from)
      [] l.k = "entry"   -> IF st = "into" THEN ReadAliasFrom(t, st, Append(into, l.v), from)
                            ELSE IF st = "from" THEN ReadAliasFrom(t, st, into, Append(from, l.v)) ELSE ReadAliasFrom(t, st, into, from)
ReadAlias(ls) == ReadAliasFrom(ls, "none", <<>>, <<>>)
WriteAlias(a) == <<L("into", 0)>> \o [i \in 1..Len(a.into) |-> L("entry", a.into[i])] \o <<L("from", 0)>> \o [i \in 1..Len(a.from) |-> L("entry", a.from[i])]
AliasRoundTrip(a) == ReadAlias(WriteAlias(a)) = a
=============================================================================
