---------------------------- MODULE ScanX ----------------------------
(* L2b: the reference interpreter beyond the basic fragment - fragment F1:                                 *)
(*   substitution of n segments by n segments      t a > d e      (n <= 3)                                  *)
(*   deletion of n segments                        t a > *                                                   *)
(*   metathesis of n segments                      t a k > &                                                 *)
(*   insertion of m literal segments               * > e o / t_k  (context required, over segments and #)   *)
(* with contexts / exceptions / environment sets as in Scan (segment elements, sets, #, $ - no $ for        *)
(* insertion). Written from doc/doc.md ("Insertion and Deletion Rules", "Metathesis Rules", "Propagation");  *)
(* where the manual is silent the choice is stated here and was then confirmed on the code (DESIGN A.5):     *)
(*  D1  a multi-segment input matches consecutive segments whatever syllable boundaries lie between them;    *)
(*  D2  after a rewrite of p..p+n-1 the scan resumes at p+n (deletion: at p); after a match that the          *)
(*      environment rejects it ALSO resumes at p+n: candidate matches never overlap (the code's choice:      *)
(*      SubRule::apply continues from the end of the rejected match);                                        *)
(*  D3  metathesis reverses the matched segments in place: the syllable shape is untouched;                  *)
(*  D4  deleting a syllable's last segment removes the syllable (with its stress and tone); deleting every   *)
(*      segment of the word is an error;                                                                     *)
(*  D5  an insertion point is a gap 0..N between segments; the before-side is matched leftwards from the     *)
(*      gap against the word AS ALREADY REWRITTEN, the after-side rightwards; the inserted segments join the *)
(*      syllable of the segment that follows the gap (the last syllable at the end of the word);             *)
(*  D6  after an insertion at gap g of m segments the next gap examined is g+m+1.                            *)
(* Side condition as for C03: at no stage are two equal segments adjacent inside a syllable (result.ok).    *)
(* Constant-only module; the explicit machine is mc/MC_ScanX.tla.                                            *)
EXTENDS Scan

(* flat word with prosody: syllable ids are the original syllable numbers; pros[id] = <<stress, tone>>     *)
FlatX(w) == [segs |-> SegTier(w), syl |-> SylIx(w.s, 1), pros |-> [i \in 1..Len(w.s) |-> <<w.s[i].st, w.s[i].t>>]]
RECURSIVE Ids(_, _)
Ids(sy, i) == IF i > Len(sy) THEN <<>> ELSE IF i > 1 /\ sy[i] = sy[i - 1] THEN Ids(sy, i + 1) ELSE <<sy[i]>> \o Ids(sy, i + 1)
RECURSIVE Collect(_, _, _)
Collect(fx, id, j) == IF j > Len(fx.segs) THEN <<>> ELSE (IF fx.syl[j] = id THEN <<fx.segs[j]>> ELSE <<>>) \o Collect(fx, id, j + 1)
UnflatX(fx) == LET ids == Ids(fx.syl, 1) IN
               [s |-> [k \in 1..Len(ids) |-> Syl(Collect(fx, ids[k], 1), fx.pros[ids[k]][1], fx.pros[ids[k]][2])], am |-> FALSE]

Kind(r) == IF r.inp[1].k = "empty" THEN "ins" ELSE IF r.out[1].k = "empty" THEN "del" ELSE IF r.out[1].k = "met" THEN "met" ELSE "sub"

(* matching a sequence of segment elements at p (D1) *)
SeqAt(fx, inp, p) == p + Len(inp) - 1 <= Len(fx.segs) /\ \A i \in 1..Len(inp) : ElemMatch(inp[i], fx.segs[p + i - 1])
RECURSIVE NextSeq(_, _, _)
NextSeq(fx, inp, cur) == IF cur > Len(fx.segs) THEN 0 ELSE IF SeqAt(fx, inp, cur) THEN cur ELSE NextSeq(fx, inp, cur + 1)

(* environments around the span lo..hi (an insertion gap g is the empty span g+1..g) *)
EnvAround(fx, lo, hi, env) == MatchSide(fx, Reverse(env.b), lo - 1, -1) /\ MatchSide(fx, env.a, hi + 1, 1)
AnyAround(fx, lo, hi, envs) == \E i \in 1..Len(envs) : EnvAround(fx, lo, hi, envs[i])
EnvOKX(fx, lo, hi, r) == (r.ctx = <<>> \/ AnyAround(fx, lo, hi, r.ctx)) /\ ~AnyAround(fx, lo, hi, r.exc)

(* the transformations *)
CutSeq(sq, lo, hi) == SubSeq(sq, 1, lo - 1) \o SubSeq(sq, hi + 1, Len(sq))
SubstAt(fx, r, p) == [fx EXCEPT !.segs = [i \in 1..Len(fx.segs) |-> IF i >= p /\ i < p + Len(r.inp) THEN RewriteBy(r.inp[i - p + 1], fx.segs[i], r.out[i - p + 1]) ELSE fx.segs[i]]]
DeleteAt(fx, n, p) == [fx EXCEPT !.segs = CutSeq(fx.segs, p, p + n - 1), !.syl = CutSeq(fx.syl, p, p + n - 1)]                    \* D4: an emptied syllable simply has no position left
MetathAt(fx, n, p) == [fx EXCEPT !.segs = [i \in 1..Len(fx.segs) |-> IF i >= p /\ i < p + n THEN fx.segs[2 * p + n - 1 - i] ELSE fx.segs[i]]]   \* D3
InsertAt2(fx, out, g) == LET N == Len(fx.segs)   id == IF g < N THEN fx.syl[g + 1] ELSE fx.syl[N]                                  \* D5
                             new == [i \in 1..Len(out) |-> ApplyFeatsOnly(Base[out[i].id], out[i].fm)]
                         IN [fx EXCEPT !.segs = SubSeq(fx.segs, 1, g) \o new \o SubSeq(fx.segs, g + 1, N),
                                       !.syl  = SubSeq(fx.syl, 1, g) \o [i \in 1..Len(out) |-> id] \o SubSeq(fx.syl, g + 1, N)]

RECURSIVE NextGap(_, _, _)
NextGap(fx, r, g) == IF g > Len(fx.segs) THEN -1 ELSE IF EnvOKX(fx, g + 1, g, r) THEN g ELSE NextGap(fx, r, g + 1)

(* the run as the recursive composition of the machine's steps: result [fx, ok, err] *)
RECURSIVE RunFrom(_, _, _, _)
RunFrom(fx, r, cur, ok) ==
  LET k == Kind(r) IN
  IF k = "ins" THEN
       LET g == NextGap(fx, r, cur) IN
       IF g = -1 THEN [fx |-> fx, ok |-> ok, err |-> FALSE]
       ELSE LET fx2 == InsertAt2(fx, r.out, g) IN RunFrom(fx2, r, g + Len(r.out) + 1, ok /\ NoAdjEqF(fx2))                      \* D6
  ELSE LET n == Len(r.inp)   p == NextSeq(fx, r.inp, cur) IN
       IF p = 0 THEN [fx |-> fx, ok |-> ok, err |-> FALSE]
       ELSE IF ~EnvOKX(fx, p, p + n - 1, r) THEN RunFrom(fx, r, p + n, ok)                                                         \* D2
       ELSE IF k = "sub" THEN LET fx2 == SubstAt(fx, r, p) IN RunFrom(fx2, r, p + n, ok /\ NoAdjEqF(fx2))
       ELSE IF k = "met" THEN LET fx2 == MetathAt(fx, n, p) IN RunFrom(fx2, r, p + n, ok /\ NoAdjEqF(fx2))
       ELSE IF Len(fx.segs) = n THEN [fx |-> fx, ok |-> ok, err |-> TRUE]                                                          \* D4
       ELSE LET fx2 == DeleteAt(fx, n, p) IN RunFrom(fx2, r, p, ok /\ NoAdjEqF(fx2))
RunX(w, r) == RunFrom(FlatX(w), r, IF Kind(r) = "ins" THEN 0 ELSE 1, NoAdjEqF(FlatX(w)))

(* laws the specification itself must satisfy (checked exhaustively in mc/MC_ScanX, and on the real code where the       *)
(* listed properties state them: C06 no-match stutter, C08 well-formedness, C14 tiers)                                   *)
Bag(sq) == [x \in {sq[i] : i \in 1..Len(sq)} |-> Cardinality({i \in 1..Len(sq) : sq[i] = x})]
=============================================================================
