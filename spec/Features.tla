---------------------------- MODULE Features ----------------------------
(* L1 of the ASCA specification: a segment is a feature bundle.                                          *)
(* A segment is a record [rut, man, lar, lab, cor, dor, phr] of integers; the three first nodes are     *)
(* always present, a place sub-node is -1 when absent. This is the manual's structure (doc/doc.md,      *)
(* "Distinctive Features"), not the implementation's bit packing (see PlacePacking).                     *)
(* Constant-only module: no VARIABLES, so that mc/, gen/ and tv/ instances may all EXTEND it.           *)
EXTENDS Integers, Sequences, FiniteSets

\* the 26 features in the manual's order: <<node, mask>>
FeatTab == << <<"rut",4>>, <<"rut",2>>, <<"rut",1>>,
              <<"man",128>>, <<"man",64>>, <<"man",32>>, <<"man",16>>, <<"man",8>>, <<"man",4>>, <<"man",2>>, <<"man",1>>,
              <<"lar",4>>, <<"lar",2>>, <<"lar",1>>,
              <<"lab",2>>, <<"lab",1>>, <<"cor",2>>, <<"cor",1>>,
              <<"dor",32>>, <<"dor",16>>, <<"dor",8>>, <<"dor",4>>, <<"dor",2>>, <<"dor",1>>,
              <<"phr",2>>, <<"phr",1>> >>
NFeat == 26
F_VOICE == 12
PlaceNodes == {"lab", "cor", "dor", "phr"}
MajorNodes == {"rut", "man", "lar"}
\* nodes a modifier may name, in the order used by generators: 1..4 place sub-nodes, 5 = place, 6..8 major nodes
NodeTab == <<"lab", "cor", "dor", "phr", "place", "rut", "man", "lar">>
NodeMax(n) == CASE n = "rut" -> 7 [] n = "man" -> 255 [] n = "lar" -> 7 [] n = "lab" -> 3 [] n = "cor" -> 3 [] n = "dor" -> 63 [] n = "phr" -> 3

Bit(n, m) == (n \div m) % 2 = 1
PlacePresent(s) == \E n \in PlaceNodes : s[n] # -1

SegOK(s) == /\ s.rut \in 0..7 /\ s.man \in 0..255 /\ s.lar \in 0..7
            /\ s.lab \in -1..3 /\ s.cor \in -1..3 /\ s.dor \in -1..63 /\ s.phr \in -1..3

---------------------------------------------------------------------------
(* Matching (manual: "a feature of an absent place sub-node matches neither + nor -") *)
MatchFeat(s, f, pos) == LET nd == FeatTab[f][1] IN s[nd] # -1 /\ (Bit(s[nd], FeatTab[f][2]) <=> pos)
MatchNode(s, nd, pos) == IF nd = "place" THEN PlacePresent(s) <=> pos
                         ELSE IF nd \in MajorNodes THEN pos       \* major nodes are always present
                         ELSE (s[nd] # -1) <=> pos

(* Setting *)
SetFeat(s, f, pos) ==
  LET nd == FeatTab[f][1]  m == FeatTab[f][2]  v == s[nd] IN
  IF pos THEN LET b == IF v = -1 THEN 0 ELSE v IN [s EXCEPT ![nd] = IF Bit(b, m) THEN b ELSE b + m]   \* creates the node, other features negative
  ELSE IF v = -1 THEN s                                                                              \* negative feature of an absent node: nothing
  ELSE [s EXCEPT ![nd] = IF Bit(v, m) THEN v - m ELSE v]

\* result of an output node modifier: <<"ok", seg>> or <<"err", seg>>
SetNode(s, nd, pos) ==
  IF nd = "place" THEN IF pos THEN <<"err", s>> ELSE <<"ok", [s EXCEPT !.lab = -1, !.cor = -1, !.dor = -1, !.phr = -1]>>
  ELSE IF nd \in MajorNodes THEN <<"err", s>>
  ELSE IF pos THEN <<"ok", IF s[nd] = -1 THEN [s EXCEPT ![nd] = 0] ELSE s>>
  ELSE <<"ok", [s EXCEPT ![nd] = -1]>>

---------------------------------------------------------------------------
(* A modifier list is a sequence of <<"f", feature, positive>> / <<"n", node, positive>> (binary only). *)
MatchMods(s, ms) == \A i \in 1..Len(ms) :
    IF ms[i][1] = "f" THEN MatchFeat(s, ms[i][2], ms[i][3]) ELSE MatchNode(s, ms[i][2], ms[i][3])

\* diacritic payload: nodes first ("+" resets the node to 0, "-" removes it), then features (seg.rs apply_diacritic_payload)
RECURSIVE ApplyNodes(_,_,_)
ApplyNodes(s, ms, i) == IF i > Len(ms) THEN s ELSE
   ApplyNodes(IF ms[i][1] = "n" THEN [s EXCEPT ![ms[i][2]] = IF ms[i][3] THEN 0 ELSE -1] ELSE s, ms, i+1)
RECURSIVE ApplyFeats(_,_,_)
ApplyFeats(s, ms, i) == IF i > Len(ms) THEN s ELSE ApplyFeats(IF ms[i][1] = "f" THEN SetFeat(s, ms[i][2], ms[i][3]) ELSE s, ms, i+1)
ApplyPayload(s, ms) == ApplyFeats(ApplyNodes(s, ms, 1), ms, 1)
ApplyFeatsOnly(s, ms) == ApplyFeats(s, ms, 1)          \* an output matrix that names features only

---------------------------------------------------------------------------
(* Alphas over features (C04): `[aF] > [aG]` / `[aF] > [-aG]`.                                          *)
(* An alpha first seen in the input binds the feature's value; if the feature's node is absent the      *)
(* element does not match. Later uses set that value (or its inverse).                                  *)
AlphaBinds(s, f) == s[FeatTab[f][1]] # -1
AlphaVal(s, f)   == Bit(s[FeatTab[f][1]], FeatTab[f][2])
AlphaCopy(s, f, g, inv) == IF AlphaBinds(s, f) THEN SetFeat(s, g, IF inv THEN ~AlphaVal(s, f) ELSE AlphaVal(s, f)) ELSE s

---------------------------------------------------------------------------
(* Laws of the algebra itself (model-checked in mc/MC_Features).                                        *)
SetThenMatch(s, f, pos) == pos => MatchFeat(SetFeat(s, f, pos), f, pos)
NegOnAbsentIsNoop(s, f) == s[FeatTab[f][1]] = -1 => SetFeat(s, f, FALSE) = s
FrameFeat(s, f, pos) == \A g \in 1..NFeat : g # f /\ s[FeatTab[g][1]] # -1 =>
                           (Bit(SetFeat(s, f, pos)[FeatTab[g][1]], FeatTab[g][2]) <=> Bit(s[FeatTab[g][1]], FeatTab[g][2]))
FrameNodes(s, f, pos) == \A n \in PlaceNodes \cup MajorNodes : n # FeatTab[f][1] => SetFeat(s, f, pos)[n] = s[n]
CreatedNodeOthersNegative(s, f) == s[FeatTab[f][1]] = -1 => SetFeat(s, f, TRUE)[FeatTab[f][1]] = FeatTab[f][2]
=============================================================================
