---------------------------- MODULE Text ----------------------------
(* Rendering a segment to text and reading it back (src/seg.rs get_as_grapheme, src/word.rs fill_segments). *)
(* A rendering is <<base id, sequence of diacritic ids>>.                                                 *)
(*                                                                                                        *)
(* Render: an exact table hit wins; otherwise every cardinal within feature distance < 8 is a candidate,  *)
(* candidates are tried by ascending distance, and for each the diacritic table is walked in order,       *)
(* applying a diacritic when the TARGET satisfies its prerequisites and payload. The manual does not fix  *)
(* the order of equally distant candidates: RenderChoices(s) is the SET of renderings over all admissible *)
(* orders (C01: it must be a singleton or the order must be fixed); RenderIn(s, order) is the rendering   *)
(* for one concrete order of the cardinals.                                                               *)
(* Parse: the base grapheme's bundle, then each diacritic in turn: its prerequisites are checked on the   *)
(* RUNNING bundle and its payload applied.                                                                *)
EXTENDS Features, Inventory, FiniteSets

B2N(b) == IF b THEN 1 ELSE 0
RECURSIVE PopSum(_, _, _, _)
PopSum(a, b, masks, i) == IF i > Len(masks) THEN 0 ELSE B2N(Bit(a, masks[i]) # Bit(b, masks[i])) + PopSum(a, b, masks, i + 1)
PopDiff(a, b, masks) == PopSum(a, b, masks, 1)
M8 == <<128,64,32,16,8,4,2,1>>   M3 == <<4,2,1>>   M6 == <<32,16,8,4,2,1>>   M2 == <<2,1>>
SubDiff(x, y, masks) == IF x = -1 /\ y = -1 THEN 0 ELSE IF x = -1 THEN 1 + PopDiff(0, y, masks)
                        ELSE IF y = -1 THEN 1 + PopDiff(x, 0, masks) ELSE PopDiff(x, y, masks)      \* presence bit + payload bits
Diff(s, t) == PopDiff(s.rut, t.rut, M3) + PopDiff(s.man, t.man, M8) + PopDiff(s.lar, t.lar, M3)
            + SubDiff(s.lab, t.lab, M2) + SubDiff(s.cor, t.cor, M2) + SubDiff(s.dor, t.dor, M6) + SubDiff(s.phr, t.phr, M2)

\* walk the diacritic table from candidate c towards target s; result <<reached, diacritics pushed>>
RECURSIVE Walk(_,_,_,_,_)
Walk(s, c, buf, d, acc) ==
  IF d > Len(Dia) THEN <<FALSE, acc>>
  ELSE IF MatchMods(s, Dia[d].pre) /\ MatchMods(s, Dia[d].pay) /\ MatchMods(buf, Dia[d].pre)      \* ... and the bundle built so far
       THEN LET nb == ApplyPayload(buf, Dia[d].pay) IN
            IF nb = buf THEN Walk(s, c, buf, d + 1, acc)
            ELSE IF nb = c THEN Walk(s, c, nb, d + 1, acc)
            ELSE IF nb = s THEN <<TRUE, Append(acc, d)>> ELSE Walk(s, c, nb, d + 1, Append(acc, d))
       ELSE IF buf = s THEN <<TRUE, acc>> ELSE Walk(s, c, buf, d + 1, acc)

N == Len(Base)
Exact(s) == { i \in 1..N : Base[i] = s }
Cands(s) == { i \in 1..N : Diff(s, Base[i]) < 8 }

RenderChoices(s) ==
  IF Exact(s) # {} THEN { <<i, <<>>>> : i \in Exact(s) }
  ELSE LET cands == Cands(s)
           wk == [ i \in cands |-> Walk(s, Base[i], Base[i], 1, <<>>) ]
           good == { i \in cands : wk[i][1] }
       IN IF good = {} THEN {}
          ELSE LET dmin == CHOOSE d \in 0..7 : (\E i \in good : Diff(s, Base[i]) = d) /\ \A i \in good : Diff(s, Base[i]) >= d
               IN { <<i, wk[i][2]>> : i \in { j \in good : Diff(s, Base[j]) = dmin } }

\* the rendering for one concrete order of the cardinals (a sequence of ids): first exact hit, else the first
\* successful candidate in the order obtained by a stable sort on distance
FirstIn(order, P(_)) == LET S == { i \in 1..Len(order) : P(order[i]) } IN IF S = {} THEN 0 ELSE order[CHOOSE i \in S : \A j \in S : i <= j]
RenderIn(s, order) ==
  LET e == FirstIn(order, LAMBDA j : Base[j] = s) IN
  IF e # 0 THEN <<e, <<>>>>
  ELSE LET ch == RenderChoices(s) IN
       IF ch = {} THEN <<0, <<>>>>
       ELSE LET w == FirstIn(order, LAMBDA j : \E r \in ch : r[1] = j) IN CHOOSE r \in ch : r[1] = w

(* Reading text (a sequence of code points) back. The base grapheme is found by LONGEST MATCH through the   *)
(* table of cardinal graphemes (word.rs fill_segments walks a trie while the buffer is a prefix of some   *)
(* grapheme, then falls back by one character), every following diacritic character is applied to the    *)
(* last segment. ReadSegs returns <<"ok", segments>> or <<"err", ..>>.                                     *)
IsPrefix(p, g) == Len(p) <= Len(g) /\ SubSeq(g, 1, Len(p)) = p
SomePrefix(p) == \E i \in 1..Len(GraphCp) : IsPrefix(p, GraphCp[i])
IdOf(p) == LET S == { i \in 1..Len(GraphCp) : GraphCp[i] = p } IN IF S = {} THEN 0 ELSE CHOOSE i \in S : TRUE
RECURSIVE Extend(_, _)
Extend(cps, k) == IF k < Len(cps) /\ SomePrefix(SubSeq(cps, 1, k + 1)) THEN Extend(cps, k + 1) ELSE k      \* longest k with cps[1..k] a prefix of a grapheme
DiaOf(c) == LET S == { d \in 1..Len(DiaCp) : DiaCp[d] = c } IN IF S = {} THEN 0 ELSE CHOOSE d \in S : TRUE
RECURSIVE ReadFrom(_, _)
ReadFrom(cps, acc) ==
  IF cps = <<>> THEN <<"ok", acc>>
  ELSE IF SomePrefix(<<cps[1]>>) THEN
          LET k == Extend(cps, 1)
              id == IdOf(SubSeq(cps, 1, k))
              id2 == IF id # 0 \/ k = 1 THEN id ELSE IdOf(SubSeq(cps, 1, k - 1))
              used == IF id # 0 THEN k ELSE k - 1
          IN IF id2 = 0 THEN <<"err", acc>> ELSE ReadFrom(SubSeq(cps, used + 1, Len(cps)), Append(acc, Base[id2]))
       ELSE LET d == DiaOf(cps[1]) IN
            IF d = 0 \/ acc = <<>> THEN <<"err", acc>>
            ELSE IF MatchMods(acc[Len(acc)], Dia[d].pre) THEN ReadFrom(Tail(cps), [acc EXCEPT ![Len(acc)] = ApplyPayload(@, Dia[d].pay)]) ELSE <<"err", acc>>
TextOf(r) == GraphCp[r[1]] \o [i \in 1..Len(r[2]) |-> DiaCp[r[2][i]]]
ReadSegs(cps) == ReadFrom(cps, <<>>)

\* reading back: <<"ok", bundle>> or <<"err", bundle so far>>
RECURSIVE ParseDias(_, _, _)
ParseDias(cur, ds, i) == IF i > Len(ds) THEN <<"ok", cur>>
                         ELSE IF MatchMods(cur, Dia[ds[i]].pre) THEN ParseDias(ApplyPayload(cur, Dia[ds[i]].pay), ds, i + 1) ELSE <<"err", cur>>
ParseSegSimple(r) == ParseDias(Base[r[1]], r[2], 1)       \* the reader without tokenisation (kept for comparison)
ParseSeg(r) == LET x == ReadSegs(TextOf(r)) IN IF x[1] = "ok" /\ Len(x[2]) = 1 THEN <<"ok", x[2][1]>> ELSE <<"err", Base[r[1]]>>

(* the laws *)
RoundTrip(s, r) == r[1] # 0 => ParseSeg(r) = <<"ok", s>>                 \* C09 on one segment
OrderIndependent(s) == Cardinality(RenderChoices(s)) <= 1                 \* C01 without fixing the order
=============================================================================
