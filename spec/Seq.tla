---------------------------- MODULE Seq ----------------------------
(* `asca seq`: a project config (doc/doc-cli.md "Sequences"; src/cli/config/parser.rs, src/cli/seq.rs).    *)
(* Tags are 1..N in file order. conf[t] = [from |-> 0 (own word files) | another tag | N+1 (a name that     *)
(* does not exist), nent |-> number of rule-file entries]. Lexicons are abstract values; applying entry e  *)
(* of tag t is the uninterpreted function G, appending a tag's own word files to inherited words is J.      *)
EXTENDS Integers, Sequences, FiniteSets
CONSTANTS G(_, _, _),     \* G(t, e, v): the lexicon after applying entry e of tag t to lexicon v
          J(_, _),        \* J(v, t): inherited lexicon v with tag t's own word files appended
          B(_)            \* B(t): the lexicon read from tag t's own word files
(* mc/MC_Seq instantiates G, J, B with the FREE interpretation (a lexicon is the sequence of operations that  *)
(* produced it): two results that are equal there are equal under every interpretation of the stage functions. *)

(* ---- validation (parser.rs parse / detect_tag_loop) ---- *)
NoDangling(conf, N) == \A t \in 1..N : conf[t].from \in 0..N
RECURSIVE WalkLoops(_, _, _)
WalkLoops(conf, head, seen) ==                       \* detect_tag_loop: follow `from` until it ends or repeats
  LET f == conf[head].from IN
  IF f = 0 THEN FALSE ELSE IF f \in seen THEN TRUE ELSE WalkLoops(conf, f, seen \cup {f})
Validate(conf, N) == NoDangling(conf, N) /\ \A t \in 1..N : conf[t].from # 0 => ~WalkLoops(conf, t, {})

(* the mathematical notion: no tag reaches itself through `from` *)
RECURSIVE Reach(_, _, _, _)
Reach(conf, N, t, k) == IF k = 0 \/ conf[t].from = 0 \/ conf[t].from > N THEN {} ELSE {conf[t].from} \cup Reach(conf, N, conf[t].from, k - 1)
Acyclic(conf, N) == \A t \in 1..N : t \notin Reach(conf, N, t, N + 1)

(* ---- meaning of a validated config: composition of the stages along the chain ---- *)
RECURSIVE ApplyEntries(_, _, _, _)
ApplyEntries(t, e, n, v) == IF e > n THEN v ELSE ApplyEntries(t, e + 1, n, G(t, e, v))
RECURSIVE Result(_, _)
Result(conf, t) ==
  LET inp == IF conf[t].from = 0 THEN B(t) ELSE J(Result(conf, conf[t].from), t)
  IN ApplyEntries(t, 1, conf[t].nent, inp)
RECURSIVE Chain(_, _)
Chain(conf, t) == IF conf[t].from = 0 THEN <<t>> ELSE Append(Chain(conf, conf[t].from), t)

(* ---- filters (parser.rs parse_entry): names are compared case-insensitively; a group list is a sequence of names *)
\* names are integers; Fold(n) = its case-folded form
FilterOnly(groups, wanted, Fold(_)) ==          \* ~ {..}: exactly the named groups, in the order named; <<>> if one is missing (an error)
  IF \A i \in 1..Len(wanted) : \E j \in 1..Len(groups) : Fold(groups[j]) = Fold(wanted[i])
  THEN [i \in 1..Len(wanted) |-> groups[CHOOSE j \in 1..Len(groups) : Fold(groups[j]) = Fold(wanted[i]) /\ \A k \in 1..(j - 1) : Fold(groups[k]) # Fold(wanted[i])]]
  ELSE <<>>
FilterWithout(groups, unwanted, Fold(_)) ==     \* ! {..}: every group not named, in file order
  LET keep == { j \in 1..Len(groups) : \A i \in 1..Len(unwanted) : Fold(groups[j]) # Fold(unwanted[i]) }
  IN [i \in 1..Cardinality(keep) |-> groups[CHOOSE j \in keep : Cardinality({k \in keep : k < j}) = i - 1]]
=============================================================================
