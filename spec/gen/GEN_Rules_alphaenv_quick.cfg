INIT Init
NEXT Next
INVARIANT Emit
CHECK_DEADLOCK FALSE
CONSTANTS N = 1500  Mode = "alphaenv"
