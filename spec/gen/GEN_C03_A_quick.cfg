INIT Init
NEXT Next
INVARIANT Emit
CHECK_DEADLOCK FALSE
CONSTANTS Stratum = "A"  MaxLen = 4  Stride = 500  NWords = 0
