INIT Init
NEXT Next
INVARIANT Emit
CHECK_DEADLOCK FALSE
CONSTANTS N = 4  Count = 400
  G <- GFree
  J <- JFree
  B <- BFree
