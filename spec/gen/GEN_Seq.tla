---------------------------- MODULE GEN_Seq ----------------------------
(* C20 behaviours: project configs (tags in a declaration order, % references incl. cycles and dangling     *)
(* ones, 1-2 rule-file entries per tag with ! / ~ filters in mixed case, extra word files, an alias on      *)
(* the root) with, for validated configs, the PLAN the documentation prescribes: per tag the chain of tags  *)
(* and per entry the selected rule groups in order. The harness materialises the project with real rule     *)
(* files, runs the real `asca seq` / `asca conv tag` and compares with the plan executed through asca::run. *)
EXTENDS Seq, TLC, Json, IOUtils
CONSTANTS N, Count
Seed == IF "VERIF_SEED" \in DOMAIN IOEnv THEN atoi(IOEnv.VERIF_SEED) ELSE 0
GFree(t, e, v) == Append(v, <<"apply", t, e>>)
JFree(v, t) == Append(v, <<"append-words", t, 0>>)
BFree(t) == << <<"words", t, 0>> >>

\* rule files: file k has groups named 1..NGroups[k]; name n + 100 is n in another letter case
NGroups == <<3, 2, 1>>
Fold(x) == x % 100
Filters == << <<"none", <<>>>>, <<"only", <<2>>>>, <<"only", <<103, 1>>>>, <<"only", <<1, 3>>>>, <<"without", <<102>>>>, <<"without", <<1, 3>>>>, <<"only", <<4>>>>, <<"without", <<4>>>>, <<"without", <<101>>>>, <<"without", <<1>>>> >>
GroupsOf(k) == [i \in 1..NGroups[k] |-> i]
Select(k, fi) == LET f == Filters[fi] IN
                 CASE f[1] = "none" -> GroupsOf(k)
                   [] f[1] = "only" -> FilterOnly(GroupsOf(k), f[2], Fold)
                   [] f[1] = "without" -> FilterWithout(GroupsOf(k), f[2], Fold)
\* a filter is an error if a wanted name is missing (only) or nothing was removed (without)
FilterErr(k, fi) == LET f == Filters[fi] IN
                    CASE f[1] = "none" -> FALSE
                      [] f[1] = "only" -> Select(k, fi) = <<>>
                      [] f[1] = "without" -> Len(Select(k, fi)) = NGroups[k]

Entry == [file : 1..3, filt : 1..Len(Filters)]
VARIABLES sd, done
\* the configuration is a function of a seed: choice point p of configuration sd takes the value H(sd, p)
H(seed, p) == LET M  == 46337                                  \* prime; every intermediate stays below 2^31 (TLC integers are 32-bit)
                  h0 == ((seed % M) * 31337 + 12345) % M
                  h1 == (h0 * 75 + 74) % 65537
                  pl == p % 997   ph == p \div 997
                  h2 == (h1 * (pl + 3) + ph * 7919 + 1) % M
                  h3 == (h2 * 31337 + ph * 613 + pl) % M
                  h4 == (h3 * h3 + h2) % M                      \* the square makes the value non-linear in p: neighbouring choice points (children p*8+i) are independent
              IN  (h4 * 75 + h1) % M
S == sd + Seed * 7919
Pick(p, n) == (H(S, p) % n) + 1
\* references: mostly to an earlier-numbered tag or none (acyclic by construction), sometimes arbitrary (cycles, self reference), rarely dangling
FromOf(t) == LET c == Pick(t * 10 + 1, 40) IN
             IF c = 40 THEN N + 1 ELSE IF c >= 35 THEN Pick(t * 10 + 2, N) ELSE Pick(t * 10 + 2, t) - 1
conf == [t \in 1..N |-> [from |-> FromOf(t), nent |-> Pick(t * 10 + 3, 2)]]
\* filters: mostly ones that are valid for the chosen file
ValidFilters == << <<1, 2, 3, 4, 5, 6, 9, 10>>, <<1, 2, 5, 9>>, <<1>> >>   \* 9, 10: a single-name `!` that removes the FIRST group (the survivors must keep the file's order)
FiltOf(file, p) == IF Pick(p + 1000, 12) = 12 THEN Pick(p, Len(Filters)) ELSE ValidFilters[file][Pick(p, Len(ValidFilters[file]))]
FileOf(t, e) == Pick(t * 10 + 3 + e, 3)
ents == [t \in 1..N |-> [e \in 1..2 |-> [file |-> FileOf(t, e), filt |-> FiltOf(FileOf(t, e), t * 10 + 5 + e)]]]
extra == [t \in 1..N |-> Pick(t * 10 + 8, 3) = 1]
\* declaration order of the tags in the file: a permutation decoded from a number (Lehmer code)
RECURSIVE PermFrom(_, _)
PermFrom(code, rest) == IF rest = <<>> THEN <<>> ELSE
    LET k == (code % Len(rest)) + 1 IN <<rest[k]>> \o PermFrom(code \div Len(rest), SubSeq(rest, 1, k - 1) \o SubSeq(rest, k + 1, Len(rest)))
decl == PermFrom(H(S, 99), [i \in 1..N |-> i])
Init == done = FALSE /\ sd \in 1..Count
Next == ~done /\ done' = TRUE /\ UNCHANGED sd

Valid == Validate(conf, N)
AnyFilterErr == \E t \in 1..N : \E e \in 1..conf[t].nent : FilterErr(ents[t][e].file, ents[t][e].filt)
Plan(t) == [chain |-> Chain(conf, t),
            entries |-> [e \in 1..conf[t].nent |-> [file |-> ents[t][e].file, groups |-> Select(ents[t][e].file, ents[t][e].filt)]]]
Emit == done => PrintT(ToJson([seed |-> sd, n |-> N, conf |-> conf, ents |-> ents, extra |-> extra, decl |-> decl, filters |-> Filters,
                               valid |-> Valid, acyclic |-> Acyclic(conf, N), filter_error |-> AnyFilterErr,
                               plan |-> IF Valid THEN [t \in 1..N |-> Plan(t)] ELSE <<>>]))
=============================================================================
