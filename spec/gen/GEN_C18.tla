---------------------------- MODULE GEN_C18 ----------------------------
(* C18: model-checks the refinement PlacePacking!Refines and the accessor laws on every packed value,   *)
(* and prints, per packed value, what the concrete model computes for every setter call; the harness    *)
(* runs the real accessors on the same value and compares bit for bit.                                   *)
EXTENDS PlacePacking, Features, TLC, Json, IOUtils
CONSTANTS IllStride          \* ill-formed packed values u are enumerated when u % IllStride = Seed % IllStride (1 = all)
Seed == IF "VERIF_SEED" \in DOMAIN IOEnv THEN atoi(IOEnv.VERIF_SEED) ELSE 0

VARIABLES kind, u, res
vars == <<kind, u, res>>

OpSeq == << <<"lab", -1>>, <<"lab", 0>>, <<"lab", 1>>, <<"lab", 2>>, <<"lab", 3>>,
            <<"cor", -1>>, <<"cor", 0>>, <<"cor", 1>>, <<"cor", 2>>, <<"cor", 3>>,
            <<"phr", -1>>, <<"phr", 0>>, <<"phr", 1>>, <<"phr", 2>>, <<"phr", 3>> >>
          \o [i \in 1..65 |-> <<"dor", i - 2>>]

Init == /\ res = <<>>
        /\ \/ kind = "place" /\ u \in -1..65535 /\ (WellFormed(u) \/ u % IllStride = Seed % IllStride)
           \/ kind = "byte" /\ u \in 0..255                      \* root / manner / laryngeal bytes

\* segment-level feature laws on a major-node byte: for node n with byte u and every feature f of that node
ByteSeg(n, bb) == [rut |-> IF n = "rut" THEN bb ELSE 0, man |-> IF n = "man" THEN bb ELSE 0, lar |-> IF n = "lar" THEN bb ELSE 0,
                   lab |-> -1, cor |-> -1, dor |-> -1, phr |-> -1]
FeatsOf(n) == SelectSeq([i \in 1..NFeat |-> i], LAMBDA i : FeatTab[i][1] = n)
ByteRes(n) == [k \in 1..Len(FeatsOf(n)) |->
                 LET f == FeatsOf(n)[k]  s == ByteSeg(n, u) IN
                 [f |-> f, setp |-> SetFeat(s, f, TRUE)[n], setn |-> SetFeat(s, f, FALSE)[n], mp |-> MatchFeat(s, f, TRUE), mn |-> MatchFeat(s, f, FALSE)]]
\* place features through the segment API on the packed value: abstract Features!SetFeat / MatchFeat on Abs(u)
AbsSeg(uu) == LET a == Abs(uu) IN [rut |-> 0, man |-> 0, lar |-> 0, lab |-> a.lab, cor |-> a.cor, dor |-> a.dor, phr |-> a.phr]
PlaceFeatRes == [k \in 1..12 |->
                 LET f == 14 + k  s == AbsSeg(u)  n == FeatTab[f][1] IN
                 [f |-> f, setp |-> SetFeat(s, f, TRUE)[n], setn |-> SetFeat(s, f, FALSE)[n], mp |-> MatchFeat(s, f, TRUE), mn |-> MatchFeat(s, f, FALSE)]]

Next == res = <<>> /\ UNCHANGED <<kind, u>> /\
        res' = IF kind = "place"
               THEN [sets |-> [i \in 1..Len(OpSeq) |-> ImplSet(u, OpSeq[i][1], OpSeq[i][2])],
                     gets |-> <<ImplGet(u, "lab"), ImplGet(u, "cor"), ImplGet(u, "dor"), ImplGet(u, "phr")>>,
                     wf |-> WellFormed(u), feats |-> PlaceFeatRes]
               ELSE [rut |-> IF u <= 7 THEN ByteRes("rut") ELSE <<>>, man |-> ByteRes("man"), lar |-> IF u <= 7 THEN ByteRes("lar") ELSE <<>>]

Emit == res # <<>> => PrintT(ToJson([kind |-> kind, u |-> u, res |-> res]))

\* the refinement and the laws, for every packed value and every setter call
Laws == (res # <<>> /\ kind = "place") => \A i \in 1..Len(OpSeq) : AllLaws(u, OpSeq[i][1], OpSeq[i][2])
=============================================================================
