INIT Init
NEXT Next
INVARIANT Emit
INVARIANT Laws
CHECK_DEADLOCK FALSE
CONSTANTS MaxDia = 1  DiaStride = 1  AlphaStride = 1
