INIT Init
NEXT Next
INVARIANT Emit
CHECK_DEADLOCK FALSE
CONSTANTS Stride1 = 3  MaxDia = 1  Stride2 = 128  FeatChange = TRUE
