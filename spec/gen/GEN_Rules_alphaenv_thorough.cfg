INIT Init
NEXT Next
INVARIANT Emit
CHECK_DEADLOCK FALSE
CONSTANTS N = 10000  Mode = "alphaenv"
