INIT Init
NEXT Next
INVARIANT Emit
CHECK_DEADLOCK FALSE
CONSTANTS N = 4  Count = 6000
  G <- GFree
  J <- JFree
  B <- BFree
