---------------------------- MODULE GEN_C07ctx ----------------------------
(* C07, second half: "a variable used in a context matches only a segment or syllable identical to the      *)
(* captured one". Rules `A > B / X=1 _ 1` (segments) and `% > [tone: 7] / %=1 _ 1` (syllables) over all    *)
(* small words, with the reference result: the rule fires exactly between identical bundles - the left      *)
(* neighbour as already rewritten, the right neighbour as yet unrewritten.                                  *)
EXTENDS Scan, TLC, Json, IOUtils
CONSTANTS MaxLen
A == Ascii.a  T == Ascii.t  I == Ascii.i  K == Ascii.k
Inv == <<A, T, I, K>>
Targets == <<Ipa(A), Mx(<<FPos(F_SYLL)>>), Grp(1), Ipa(T)>>
Outs    == <<Ipa(I), Ipa(K), Mx(<<FPos(F_VOICE)>>), Mx(<<FNeg(F_SYLL)>>)>>
Binders == <<Mx(<<>>), Grp(1), Grp(9), Mx(<<FPos(F_SYLL)>>), Mx(<<FNeg(F_VOICE)>>)>>

(* segment version on a flat word *)
RECURSIVE SegRun(_, _, _, _, _)
SegRun(fw, tg, out, bd, p) ==
  IF p > Len(fw.segs) THEN fw
  ELSE IF /\ ElemMatch(tg, fw.segs[p]) /\ p > 1 /\ p < Len(fw.segs)
          /\ ElemMatch(bd, fw.segs[p - 1])                       \* the binder matches the left neighbour (already rewritten) and captures it
          /\ fw.segs[p + 1] = fw.segs[p - 1]                     \* the reference matches only an identical bundle
       THEN SegRun([fw EXCEPT !.segs[p] = Rewrite(fw.segs[p], out)], tg, out, bd, p + 1)
       ELSE SegRun(fw, tg, out, bd, p + 1)
NoAdjEqW(w) == NoRuns(w)

(* syllable version *)
MARK == 7
RECURSIVE SylRun(_, _)
SylRun(ss, i) == IF i > Len(ss) THEN ss
                 ELSE IF i > 1 /\ i < Len(ss) /\ ss[i - 1] = ss[i + 1] THEN SylRun([ss EXCEPT ![i].t = MARK], i + 1) ELSE SylRun(ss, i + 1)

RECURSIVE SylOf(_, _)
SylOf(bs, i) == IF i = 1 THEN 1 ELSE SylOf(bs, i - 1) + (IF bs[i - 1] THEN 1 ELSE 0)
RECURSIVE SegsOfSyl(_, _, _, _)
SegsOfSyl(sg, sy, k, j) == IF j > Len(sg) THEN <<>> ELSE (IF sy[j] = k THEN <<Base[Inv[sg[j]]]>> ELSE <<>>) \o SegsOfSyl(sg, sy, k, j + 1)
BuildWord(sg, sy) == Word([k \in 1..sy[Len(sy)] |-> Syl(SegsOfSyl(sg, sy, k, 1), "U", 0)])
SegWords == UNION { { BuildWord(sg, [i \in 1..n |-> SylOf(bs, i)]) : sg \in [1..n -> 1..4], bs \in [1..(n - 1) -> BOOLEAN] } : n \in 3..MaxLen }
\* syllable words: 3 or 4 syllables drawn from a few shapes with stress / tone variants
Shapes == << <<Base[T], Base[A]>>, <<Base[K], Base[A]>>, <<Base[T], Base[A], Base[T]>>, <<Base[A]>> >>
SylPool == { Syl(Shapes[s], st, tn) : s \in 1..4, st \in {"U", "P"}, tn \in {0, 5} }
SylWords == { Word(<<x, y, z>>) : x \in SylPool, y \in SylPool, z \in SylPool }

VARIABLES mode, ti, oi, bi, w, res
Init == /\ w = <<>> /\ res = <<>>
        /\ \/ mode = "seg" /\ ti \in 1..Len(Targets) /\ oi \in 1..Len(Outs) /\ bi \in 1..Len(Binders)
           \/ mode = "syl" /\ ti = 0 /\ oi = 0 /\ bi = 0
RuleOf == IF mode = "seg" THEN Rule(<<Targets[ti]>>, <<Outs[oi]>>, <<Env(<<Bind(Binders[bi], 1)>>, <<VarRef(1)>>)>>, <<>>)
          ELSE Rule(<<SylEl(<<>>)>>, <<Mx(<<<<"t", MARK>>>>)>>, <<Env(<<Bind(SylEl(<<>>), 1)>>, <<VarRef(1)>>)>>, <<>>)
NextSeg == mode = "seg" /\ res = <<>> /\ \E x \in { y \in SegWords : NoRuns(y) } :
              /\ w' = x
              /\ res' = LET r == SegRun(Flat(x), Targets[ti], Outs[oi], Binders[bi], 1) IN <<Unflat(x, r.segs)>>
              /\ UNCHANGED <<mode, ti, oi, bi>>
NextSyl == mode = "syl" /\ res = <<>> /\ \E x \in SylWords : w' = x /\ res' = <<[x EXCEPT !.s = SylRun(x.s, 1)]>> /\ UNCHANGED <<mode, ti, oi, bi>>
Next == NextSeg \/ NextSyl
Emit == (res # <<>> /\ NoRuns(res[1])) => PrintT(ToJson([rule |-> RuleOf, w |-> WordT(w), exp |-> WordT(res[1])]))
=============================================================================
