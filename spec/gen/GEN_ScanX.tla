---------------------------- MODULE GEN_ScanX ----------------------------
(* Behaviour emitter for the fragment F1 of ScanX (n-by-n substitution, deletion, metathesis, insertion): *)
(* every rule of a pool x every word up to MaxLen segments over {a, t, i} in every syllabification, with   *)
(* the result ScanX!RunX prescribes (a word, or the error "cannot delete the whole word"). Replayed on the *)
(* real interpreter by `asca-conform replay C03` (structural comparison).                                  *)
EXTENDS ScanX, TLC, Json, IOUtils
CONSTANTS MaxLen, Stride
Seed == IF "VERIF_SEED" \in DOMAIN IOEnv THEN atoi(IOEnv.VERIF_SEED) ELSE 0

A == Ascii.a   T == Ascii.t   I == Ascii.i
Inv == <<A, T, I>>
CC == Grp(1)   VV == Grp(9)   ANY == Mx(<<>>)
Seqs == << <<Ipa(T), Ipa(A)>>, <<CC, VV>>, <<Ipa(A)>>, <<VV, CC, VV>>, <<SetOf(<<Ipa(A), Ipa(I)>>), Ipa(T)>>, <<ANY, ANY>>, <<CC>>, <<Ipa(A), CC>>, <<VV, VV>> >>
OutOf(n, v) == IF n = 1 THEN (IF v = 1 THEN <<Ipa(I)>> ELSE <<Mx(<<FNeg(F_SYLL)>>)>>)
               ELSE IF n = 2 THEN (IF v = 1 THEN <<Ipa(I), Mx(<<FPos(F_VOICE)>>)>> ELSE <<Mx(<<FPos(F_VOICE)>>), Ipa(T)>>)
               ELSE (IF v = 1 THEN <<Ipa(T), Ipa(I), Mx(<<FNeg(F_SYLL)>>)>> ELSE <<Ipa(I), Ipa(T), Ipa(A)>>)
Elems == <<Ipa(A), Ipa(T), CC, VV, WB, SB>>
InsElems == <<Ipa(A), Ipa(T), CC, VV, WB>>                                 \* no $ next to an insertion (open findings C02-KF1 / C06-KF1)
\* sides as sequences, so that a rule is chosen by indices (no set of rule records is ever built); # only outermost
Pairs(E) == [k \in 1..(Len(E) * Len(E)) |-> <<E[((k - 1) \div Len(E)) + 1], E[((k - 1) % Len(E)) + 1]>>]
SideSeq(E) == <<<<>>>> \o [i \in 1..Len(E) |-> <<E[i]>>] \o Pairs(E)
OkB(b) == \A i \in 1..Len(b) : b[i].k = "wb" => i = 1
OkA(a) == \A i \in 1..Len(a) : a[i].k = "wb" => i = Len(a)
ExcSeq == << <<>>, <<Env(<<Ipa(T)>>, <<>>)>>, <<Env(<<>>, <<VV>>)>> >>
InsOuts == << <<Ipa(I)>>, <<Ipa(I), Ipa(T)>>, <<Ipa(A)>> >>
CtxOf(c) == IF c = EmptyEnv THEN <<>> ELSE <<c>>
NS == Len(SideSeq(Elems))   NSI == Len(SideSeq(InsElems))
VARIABLES kd, si, v, cb, ca, ei, w, res
RuleOf ==
  IF kd = "ins" THEN Rule(<<Empty>>, InsOuts[si], <<Env(SideSeq(InsElems)[cb], SideSeq(InsElems)[ca])>>, IF ei = 1 THEN <<>> ELSE <<Env(<<Ipa(T)>>, <<>>)>>)
  ELSE LET c == Env(SideSeq(Elems)[cb], SideSeq(Elems)[ca]) IN
       Rule(Seqs[si], IF kd = "sub" THEN OutOf(Len(Seqs[si]), v) ELSE IF kd = "del" THEN <<Empty>> ELSE <<Met>>, CtxOf(c), ExcSeq[ei])
Index == si + 11 * v + 23 * cb + 23 * 47 * ca + 7 * ei
RECURSIVE SylOf(_, _)
SylOf(bs, i) == IF i = 1 THEN 1 ELSE SylOf(bs, i - 1) + (IF bs[i - 1] THEN 1 ELSE 0)
RECURSIVE SegsOfSyl(_, _, _, _)
SegsOfSyl(sg, sy, k, j) == IF j > Len(sg) THEN <<>> ELSE (IF sy[j] = k THEN <<Base[Inv[sg[j]]]>> ELSE <<>>) \o SegsOfSyl(sg, sy, k, j + 1)
BuildWord(sg, sy) == Word([k \in 1..sy[Len(sy)] |-> Syl(SegsOfSyl(sg, sy, k, 1), IF k = 1 THEN "P" ELSE IF k = 3 THEN "S" ELSE "U", IF k = 2 THEN 35 ELSE 0)])
Words == UNION { { BuildWord(sg, [i \in 1..n |-> SylOf(bs, i)]) : sg \in [1..n -> 1..3], bs \in [1..(n - 1) -> BOOLEAN] } : n \in 1..MaxLen }
GoodWords == { x \in Words : NoRuns(x) }

Init == /\ kd \in {"sub", "del", "met", "ins"}
        /\ IF kd = "ins" THEN /\ si \in 1..Len(InsOuts) /\ v = 1 /\ cb \in 1..NSI /\ ca \in 1..NSI /\ ei \in 1..2
                              /\ OkB(SideSeq(InsElems)[cb]) /\ OkA(SideSeq(InsElems)[ca]) /\ ~(cb = 1 /\ ca = 1)
           ELSE /\ si \in (IF kd = "met" THEN {1, 2, 4, 5, 6, 8, 9} ELSE 1..Len(Seqs)) /\ v \in (IF kd = "sub" THEN 1..2 ELSE {1})
                /\ cb \in 1..NS /\ ca \in 1..NS /\ ei \in 1..Len(ExcSeq) /\ OkB(SideSeq(Elems)[cb]) /\ OkA(SideSeq(Elems)[ca])
        /\ Index % Stride = Seed % Stride
        /\ w = <<>> /\ res = <<>>
Next == res = <<>> /\ \E x \in GoodWords : w' = x /\ res' = <<RunX(x, RuleOf)>> /\ UNCHANGED <<kd, si, v, cb, ca, ei>>
Emit == (res # <<>> /\ res[1].ok) => PrintT(ToJson([rule |-> RuleOf, w |-> WordT(w), exp |-> WordT(UnflatX(res[1].fx)), err |-> res[1].err]))
=============================================================================
