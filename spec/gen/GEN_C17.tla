---------------------------- MODULE GEN_C17 ----------------------------
(* C17 fault enumeration, driven by the phase order of the pipeline (Pipeline.tla / src/lib.rs run):      *)
(*   aliases are parsed first, then every word, then every rule in file order, then rules are applied     *)
(*   word by word in rule order. Hence of several planted faults the one REPORTED is: an alias fault,     *)
(*   else a word fault, else the first syntax fault in (group, line) order, else the first runtime fault  *)
(*   in (group, line) order (all runtime faults of the catalogue fire on the same first word).            *)
(* TLC enumerates project shapes x positions x faults (and, with Pairs, pairs of faults) together with    *)
(* the index of the fault that must be reported.                                                          *)
EXTENDS Integers, Sequences, FiniteSets, TLC, Json, IOUtils
CONSTANTS MaxGroups, MaxLines, Pairs, Stride
NLate == atoi(IOEnv.NLATE)      \* rule syntax errors raised only when the rule is applied (unbalanced condensed rule, `* > *`): they rank with runtime faults
NSyn == atoi(IOEnv.NSYN)  NRun == atoi(IOEnv.NRUN)  NWord == atoi(IOEnv.NWORD)  NAlias == atoi(IOEnv.NALIAS)
Seed == IF "VERIF_SEED" \in DOMAIN IOEnv THEN atoi(IOEnv.VERIF_SEED) ELSE 0

Shapes == UNION { [1..n -> 1..MaxLines] : n \in 1..MaxGroups }
Fault(kind, f, g, l) == [kind |-> kind, f |-> f, g |-> g, l |-> l]
RuleFaults(shape) == { Fault("syn", f, g, l) : f \in 1..NSyn, g \in 1..Len(shape), l \in 1..MaxLines } \cup { Fault("run", f, g, l) : f \in 1..NRun, g \in 1..Len(shape), l \in 1..MaxLines }
                     \cup { Fault("late", f, g, l) : f \in 1..NLate, g \in 1..Len(shape), l \in 1..MaxLines }
OtherFaults == { Fault("word", f, 0, l) : f \in 1..NWord, l \in 1..2 } \cup { Fault("alias", f, 0, l) : f \in 1..NAlias, l \in 1..2 }
InShape(shape, x) == IF x.kind \in {"word", "alias"} THEN TRUE ELSE x.l <= shape[x.g]

Rank(x) == CASE x.kind = "alias" -> 0 [] x.kind = "word" -> 1 [] x.kind = "syn" -> 2 [] x.kind = "run" -> 3 [] x.kind = "late" -> 3
Before(a, b) == Rank(a) < Rank(b) \/ (Rank(a) = Rank(b) /\ (a.g < b.g \/ (a.g = b.g /\ a.l < b.l)))
SamePlace(a, b) == (a.kind \in {"syn", "run", "late"} /\ b.kind \in {"syn", "run", "late"} /\ a.g = b.g /\ a.l = b.l) \/ (a.kind = b.kind /\ a.kind \in {"word", "alias"})

VARIABLES shape, faults, done
Hash(sh, a, b) == Len(sh) + 7 * a.f + 31 * a.g + 131 * a.l + 17 * b.f + 53 * b.g + 211 * b.l + 1009 * Rank(a) + 5003 * Rank(b)
Init == /\ done = FALSE /\ shape \in Shapes
        /\ \/ \E a \in RuleFaults(shape) \cup OtherFaults : InShape(shape, a) /\ faults = <<a>>
           \/ /\ Pairs
              /\ \E a \in RuleFaults(shape) \cup OtherFaults : \E b \in RuleFaults(shape) \cup OtherFaults :
                    /\ InShape(shape, a) /\ InShape(shape, b) /\ ~SamePlace(a, b) /\ Before(a, b)
                    /\ Hash(shape, a, b) % Stride = Seed % Stride
                    /\ faults = <<b, a>>                      \* planted in this order; the one reported is the second
Next == ~done /\ done' = TRUE /\ UNCHANGED <<shape, faults>>
Expect == IF Len(faults) = 1 THEN 1 ELSE 2
Emit == done => PrintT(ToJson([shape |-> shape, faults |-> faults, expect |-> Expect]))
=============================================================================
