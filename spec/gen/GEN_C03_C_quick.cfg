INIT Init
NEXT Next
INVARIANT Emit
CHECK_DEADLOCK FALSE
CONSTANTS Stratum = "C"  MaxLen = 4  Stride = 1600  NWords = 0
