INIT Init
NEXT Next
INVARIANT Emit
CHECK_DEADLOCK FALSE
CONSTANTS MaxRules = 4  MaxGroups = 4  MaxWords = 4
