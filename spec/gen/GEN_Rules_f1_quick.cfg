INIT Init
NEXT Next
INVARIANT Emit
CHECK_DEADLOCK FALSE
CONSTANTS N = 4000  Mode = "f1"
