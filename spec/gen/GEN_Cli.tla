---------------------------- MODULE GEN_Cli ----------------------------
(* C19 behaviours: every short sequence of rule-file lines / alias-file lines / word-file lines together   *)
(* with what the documented readers (Cli.tla) make of it. The harness writes the lines to real files (with  *)
(* indentation and trailing blanks the readers must ignore), runs the real `asca` binary on them and        *)
(* compares `conv asca`, `conv json` (both directions of the round trip) and `run -o` with these values.    *)
EXTENDS Cli, TLC, Json, IOUtils
CONSTANTS MaxLines, Stride
Seed == IF "VERIF_SEED" \in DOMAIN IOEnv THEN atoi(IOEnv.VERIF_SEED) ELSE 0
RLine == { L("name", 0), L("name", 1), L("rule", 1), L("rule", 2), L("desc", 0), L("desc", 1), L("blank", 0) }
ALine == { L("into", 0), L("from", 0), L("comment", 0), L("entry", 0), L("entry", 1), L("entry", 2) }
WLine == { [w |-> w, c |-> c] : w \in 0..2, c \in BOOLEAN }
RECURSIVE Lists(_, _)
Lists(S, n) == IF n = 0 THEN {<<>>} ELSE Lists(S, n - 1) \cup { Append(l, x) : l \in { m \in Lists(S, n - 1) : Len(m) = n - 1 }, x \in S }
RECURSIVE Code(_, _)
Code(ls, i) == IF i > Len(ls) THEN 0 ELSE (Code(ls, i + 1) * 7 + (IF "k" \in DOMAIN ls[i] THEN (CASE ls[i].k = "name" -> 1 [] ls[i].k = "rule" -> 2 [] ls[i].k = "desc" -> 3 [] ls[i].k = "blank" -> 4 [] ls[i].k = "into" -> 1 [] ls[i].k = "from" -> 2 [] ls[i].k = "comment" -> 3 [] OTHER -> 5) + ls[i].v ELSE ls[i].w)) % 100003

VARIABLES kind, lines, done
Init == /\ done = FALSE
        /\ \/ kind = "rsca" /\ lines \in Lists(RLine, MaxLines)
           \/ kind = "alias" /\ lines \in Lists(ALine, MaxLines)
           \/ kind = "wsca" /\ lines \in Lists(WLine, 3)
        /\ (kind = "wsca" \/ Code(lines, 1) % Stride = Seed % Stride)
Next == ~done /\ done' = TRUE /\ UNCHANGED <<kind, lines>>
Emit == done => PrintT(ToJson([kind |-> kind, lines |-> lines,
                               exp |-> CASE kind = "rsca" -> [groups |-> ReadRsca(lines), wf |-> WellFormed(ReadRsca(lines)), back |-> ReadRsca(WriteRsca(ReadRsca(lines)))]
                                         [] kind = "alias" -> [alias |-> ReadAlias(lines), back |-> ReadAlias(WriteAlias(ReadAlias(lines)))]
                                         [] kind = "wsca" -> [words |-> ReadWsca(lines)]]))
=============================================================================
