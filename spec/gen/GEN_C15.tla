---------------------------- MODULE GEN_C15 ----------------------------
(* C15 (iii): every ordered list of up to two romanisers from a pool x every small word, with the printed   *)
(* form Alias!RomaniseFrom prescribes.                                                                      *)
EXTENDS Alias, TLC, Json, IOUtils
CONSTANTS MaxLen
A == Ascii.a  T == Ascii.t  I == Ascii.i  SS == Ascii.s
Inv == <<A, T, I, SS>>
Rom(inp, out, plus) == [inp |-> inp, out |-> out, plus |-> plus]
Pool == << Rom(<<Ipa(A)>>, 1, FALSE), Rom(<<Ipa(T), Ipa(A)>>, 2, FALSE), Rom(<<Mx(<<FPos(F_SYLL)>>)>>, 3, TRUE), Rom(<<Mx(<<FNeg(F_SYLL)>>)>>, 1, FALSE),
           Rom(<<Mx(<<<<"f", 17, FALSE>>>>)>>, 2, FALSE),     \* [-anterior]: a feature of the coronal node, absent on vowels and on non-coronals
           Rom(<<Mx(<<<<"f", 17, TRUE>>>>)>>, 3, TRUE), Rom(<<Ipa(SS)>>, 0, FALSE), Rom(<<Ipa(I), Grp(1)>>, 2, TRUE),
           Rom(<<SB>>, 0, FALSE), Rom(<<SB>>, 3, FALSE),
           \* stress modifiers on groups, literals and matrices (tested on the segment's syllable)
           Rom(<<WithMods(Grp(9), <<<<"s", "sec.stress", TRUE>>>>)>>, 2, TRUE), Rom(<<WithMods(Grp(9), <<<<"s", "stress", TRUE>>, <<"s", "sec.stress", FALSE>>>>)>>, 1, FALSE),
           Rom(<<WithMods(Grp(1), <<<<"s", "sec.stress", FALSE>>>>)>>, 3, TRUE), Rom(<<WithMods(Ipa(A), <<<<"s", "stress", FALSE>>>>)>>, 2, FALSE),
           Rom(<<Mx(<<FPos(F_SYLL), <<"s", "sec.stress", TRUE>>>>)>>, 1, TRUE), Rom(<<WithMods(Grp(1), <<<<"s", "stress", TRUE>>>>), Grp(9)>>, 2, FALSE),
           \* tone modifiers: the romaniser uses up the tone of the syllable it fires in - and of no other
           Rom(<<WithMods(Ipa(A), <<<<"t", 5>>>>)>>, 2, FALSE), Rom(<<WithMods(Grp(9), <<<<"t", 51>>>>)>>, 1, TRUE), Rom(<<Ipa(T), WithMods(Ipa(I), <<<<"t", 5>>>>)>>, 3, FALSE),
           Rom(<<WithMods(Ipa(A), <<<<"t", 5>>>>), Ipa(T)>>, 1, FALSE), Rom(<<WithMods(Grp(1), <<<<"t", 51>>>>), Ipa(I), Ipa(SS)>>, 2, TRUE) >>     \* the tone is named before the last element: a partial match must leave it alone
NP == Len(Pool)
RECURSIVE SylOf(_, _)
SylOf(bs, i) == IF i = 1 THEN 1 ELSE SylOf(bs, i - 1) + (IF bs[i - 1] THEN 1 ELSE 0)
RECURSIVE SegsOfSyl(_, _, _, _)
SegsOfSyl(sg, sy, k, j) == IF j > Len(sg) THEN <<>> ELSE (IF sy[j] = k THEN <<Base[Inv[sg[j]]]>> ELSE <<>>) \o SegsOfSyl(sg, sy, k, j + 1)
\* tv = 1: tonal word, odd syllables carry tone 5, even ones 51
BuildWord(sg, sy, stv, tv) == Word([k \in 1..sy[Len(sy)] |-> Syl(SegsOfSyl(sg, sy, k, 1), IF k = stv THEN "P" ELSE IF k = stv + 1 THEN "S" ELSE "U", IF tv = 0 THEN 0 ELSE IF k % 2 = 1 THEN 5 ELSE 51)])
Words == UNION { { BuildWord(sg, [i \in 1..n |-> SylOf(bs, i)], stv, tv) : sg \in [1..n -> 1..4], bs \in [1..(n - 1) -> BOOLEAN], stv \in 0..2, tv \in 0..1 } : n \in 1..MaxLen }
\* words typed in americanist notation: over a and the cardinals that have an americanist spelling
AInv == <<A>> \o AmerLits
RECURSIVE ASegsOfSyl(_, _, _, _)
ASegsOfSyl(sg, sy, k, j) == IF j > Len(sg) THEN <<>> ELSE (IF sy[j] = k THEN <<Base[AInv[sg[j]]]>> ELSE <<>>) \o ASegsOfSyl(sg, sy, k, j + 1)
AmerWords == UNION { { [Word([k \in 1..sy[Len(sy)] |-> Syl(ASegsOfSyl(sg, sy, k, 1), "U", 0)]) EXCEPT !.am = TRUE]
                       : sg \in [1..n -> 1..Len(AInv)], sy \in { [i \in 1..n |-> SylOf(bs, i)] : bs \in [1..(n - 1) -> BOOLEAN] } } : n \in 1..(IF MaxLen > 3 THEN 3 ELSE MaxLen) }
VARIABLES a1, a2, w, res
Init == a1 \in 1..NP /\ a2 \in 0..NP /\ w = <<>> /\ res = <<>>
Aliases == IF a2 = 0 THEN <<Pool[a1]>> ELSE <<Pool[a1], Pool[a2]>>
Next == res = <<>> /\ \E x \in { y \in Words \cup AmerWords : NoRuns(y) } : w' = x /\ res' = <<RomaniseFrom(Aliases, x)>> /\ UNCHANGED <<a1, a2>>
TokT(t) == IF t[1] = "g" THEN <<"g", SegT(t[2])>> ELSE t
Emit == res # <<>> => PrintT(ToJson([aliases |-> Aliases, w |-> WordT(w), exp |-> [i \in 1..Len(res[1]) |-> TokT(res[1][i])]]))
=============================================================================
