---------------------------- MODULE GEN_Rules ----------------------------
(* Emits rule ASTs from Grammar, one per seed; Mode selects the family:                                   *)
(*   "any" full grammar   "planted" C06   "segonly"/"prosonly" C14   "identity" C07                      *)
EXTENDS Grammar, TLC, Json, IOUtils
CONSTANTS N, Mode
Seed == IF "VERIF_SEED" \in DOMAIN IOEnv THEN atoi(IOEnv.VERIF_SEED) ELSE 0
VARIABLES s, r
SeedOf(i) == (Seed * 7919 + i) % 1000003
Gen(sd) == CASE Mode = "any" -> [class |-> "any", rule |-> GenAny(sd)]
             [] Mode = "planted" -> [class |-> "planted", rule |-> GenPlanted(sd)]
             [] Mode = "segonly" -> GenSegOnly(sd)
             [] Mode = "prosonly" -> GenProsOnly(sd)
             [] Mode = "identity" -> GenIdentity(sd)
             [] Mode = "f0" -> [class |-> "f0", rule |-> GenF0(sd)]
             [] Mode = "f1" -> [class |-> "f1", rule |-> GenF1(sd)]
             [] Mode = "alphaenv" -> [class |-> "alphaenv", rule |-> GenAlphaEnv(sd)]
             [] Mode = "pairs" -> [class |-> "pair", rule |-> GenObserverPair(sd)[1], rule2 |-> GenObserverPair(sd)[2]]
Init == s \in 1..N /\ r = <<>>
Next == r = <<>> /\ r' = <<Gen(SeedOf(s))>> /\ UNCHANGED s
Emit == r # <<>> => PrintT(ToJson(IF Mode = "pairs" THEN [seed |-> SeedOf(s), class |-> r[1].class, rule |-> r[1].rule, rule2 |-> r[1].rule2]
                                                    ELSE [seed |-> SeedOf(s), class |-> r[1].class, rule |-> r[1].rule]))
=============================================================================
