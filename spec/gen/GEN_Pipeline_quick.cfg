INIT Init
NEXT Next
INVARIANT Emit
CHECK_DEADLOCK FALSE
CONSTANTS MaxRules = 3  MaxGroups = 3  MaxWords = 3
