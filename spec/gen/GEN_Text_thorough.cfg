INIT Init
NEXT Next
INVARIANT Emit
CHECK_DEADLOCK FALSE
CONSTANTS Stride1 = 1  MaxDia = 2  Stride2 = 6  FeatChange = TRUE
