---------------------------- MODULE GEN_C05 ----------------------------
(* Behaviour emitter for C05: (state of the target) x (modifier combination) x (input side / output side) *)
(* x (element kind) x (position of the target in its syllable), with the outcome Supra demands.           *)
EXTENDS Supra, WordStruct, Inventory, TLC, Json, IOUtils
CONSTANTS Stride     \* 1 = every case; k > 1 = every single-modifier case plus the cases whose index % k = Seed % k
Seed == IF "VERIF_SEED" \in DOMAIN IOEnv THEN atoi(IOEnv.VERIF_SEED) ELSE 0

Stress == {"U", "P", "S"}
Tones == {0, 5, 51, 1234}
Mods == [L : Tri, O : Tri, S : Tri, C : Tri, T : {-1} \cup Tones]
NMods(m) == (IF m.L = "0" THEN 0 ELSE 1) + (IF m.O = "0" THEN 0 ELSE 1) + (IF m.S = "0" THEN 0 ELSE 1) + (IF m.C = "0" THEN 0 ELSE 1) + (IF m.T = -1 THEN 0 ELSE 1)
TriIx(x) == CASE x = "0" -> 0 [] x = "+" -> 1 [] x = "-" -> 2
Index(nn, m, tt) == nn + 3 * TriIx(m.L) + 9 * TriIx(m.O) + 27 * TriIx(m.S) + 81 * TriIx(m.C) + 243 * (m.T % 7) + 1701 * (tt % 5)

VARIABLES n, st, t, m, side, kind, posn, res
vars == <<n, st, t, m, side, kind, posn, res>>

Init == /\ n \in 1..3 /\ st \in Stress /\ t \in Tones /\ m \in Mods
        /\ side \in {"in", "out"} /\ kind \in {"ipa", "grp", "mx", "syl"} /\ posn \in {"first", "mid", "last"}
        /\ (kind = "syl" => m.L = "0" /\ m.O = "0" /\ posn = "mid")
        /\ (Stride = 1 \/ NMods(m) <= 1 \/ Index(n, m, t) % Stride = Seed % Stride)
        /\ res = <<>>

K == Base[Ascii.k]  I == Base[Ascii.i]  T == Base[Ascii.t]  A == Base[Ascii.a]  U == Base[Ascii.u]
Nasal(s) == SetFeat(s, 7, TRUE)
Vowels == <<I, A, U>>
\* a word from the per-syllable vowel states vs[i] = [n, st, t, nas]
SylG(i, v) == LET vw == Rep(IF v.nas THEN Nasal(Vowels[i]) ELSE Vowels[i], v.n) IN
              IF i = 1 \/ i = 3 THEN <<K>> \o vw
              ELSE CASE posn = "first" -> vw \o <<T>> [] posn = "mid" -> <<T>> \o vw \o <<T>> [] posn = "last" -> <<T>> \o vw
Build(vs) == Word([i \in 1..3 |-> Syl(SylG(i, vs[i]), vs[i].st, vs[i].t)])
V0 == [n |-> 1, st |-> "U", t |-> 0, nas |-> FALSE]
In == <<V0, [n |-> n, st |-> st, t |-> t, nas |-> FALSE], V0>>
Eligible(i) == kind # "ipa" \/ i = 2        \* the IPA element is `a`, only the target; group V / [+syll] / % reach every syllable

MARK == 77                                   \* marker tone for the `%` input-side rule
Outcome ==
  IF side = "in" THEN
     IF Contradictory(m) THEN <<"err_or_same", Build(In)>>
     ELSE <<"ok", Build([i \in 1..3 |->
              IF Eligible(i) /\ Match(IF kind = "syl" THEN [m EXCEPT !.L = "0", !.O = "0"] ELSE m, In[i].n, In[i].st, In[i].t)
              THEN (IF kind = "syl" THEN [In[i] EXCEPT !.t = MARK] ELSE [In[i] EXCEPT !.nas = TRUE])
              ELSE In[i]])>>
  ELSE
     IF Contradictory(m) THEN <<"err", Build(In)>>
     ELSE <<"ok", Build([i \in 1..3 |->
              IF Eligible(i) THEN [In[i] EXCEPT !.n = SetLen(@, m.L, m.O), !.st = SetStr(@, m.S, m.C), !.t = SetTone(@, m.T)] ELSE In[i]])>>

Next == res = <<>> /\ res' = Outcome /\ UNCHANGED <<n, st, t, m, side, kind, posn>>

Emit == res # <<>> => PrintT(ToJson([w |-> Build(In), m |-> m, side |-> side, kind |-> kind, posn |-> posn, n |-> n, status |-> res[1], exp |-> res[2]]))

Laws == res # <<>> => SetThenMatch(m, n, st, t) /\ FrameLaw(m, n, st, t) /\ WordOK(Build(In)) /\ WordOK(res[2])
=============================================================================
