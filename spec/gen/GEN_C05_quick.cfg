INIT Init
NEXT Next
INVARIANT Emit
INVARIANT Laws
CHECK_DEADLOCK FALSE
CONSTANTS Stride = 10
