---------------------------- MODULE GEN_C04 ----------------------------
(* Behaviour emitter for C04: enumerates (segment, modifier, rule shape) and prints the outcome the     *)
(* specification (Features) demands; the harness replays each line through the real rule pipeline.      *)
EXTENDS Features, Inventory, TLC, Json, IOUtils
CONSTANTS MaxDia,        \* 0: base segments only; 1: base + every applicable single diacritic
          DiaStride,     \* base + diacritic targets are enumerated for the bases b with b % DiaStride = Seed % DiaStride
          AlphaStride    \* alpha pairs are enumerated on the bases b with b % AlphaStride = Seed % AlphaStride
Seed == IF "VERIF_SEED" \in DOMAIN IOEnv THEN atoi(IOEnv.VERIF_SEED) ELSE 0

VARIABLES b, d, shape, kind, x, pos, g, inv, res
vars == <<b, d, shape, kind, x, pos, g, inv, res>>

Target(bb, dd) == IF dd = 0 THEN Base[bb] ELSE ApplyPayload(Base[bb], Dia[dd].pay)
Applicable(bb, dd) == IF dd = 0 THEN TRUE ELSE (MatchMods(Base[bb], Dia[dd].pre) /\ Target(bb, dd) # Base[bb])

Init == /\ b \in 1..Len(Base) /\ d \in 0..(IF MaxDia = 0 THEN 0 ELSE Len(Dia)) /\ Applicable(b, d)
        /\ (IF d = 0 THEN TRUE ELSE b % DiaStride = Seed % DiaStride)
        /\ res = <<>>
        /\ \/ shape \in {"set", "match"} /\ kind = "f" /\ x \in 1..NFeat /\ pos \in BOOLEAN /\ g = 0 /\ inv = FALSE
           \/ shape \in {"set", "match"} /\ kind = "n" /\ x \in 1..5 /\ pos \in BOOLEAN /\ g = 0 /\ inv = FALSE
           \/ shape = "alpha" /\ kind = "f" /\ d = 0 /\ b % AlphaStride = Seed % AlphaStride
              /\ x \in 1..NFeat /\ g \in 1..NFeat /\ inv \in BOOLEAN /\ pos = TRUE
           \* a matrix naming a binary feature AND an alpha, on a word of two segments (Partner first): every segment is judged on its own,
           \* nothing learnt on a segment that fails may reach the next one
           \/ shape = "combo" /\ kind = "f" /\ d = 0 /\ b % AlphaStride = Seed % AlphaStride
              /\ x \in 1..NFeat /\ g = ((x + 5) % NFeat) + 1 /\ inv \in BOOLEAN /\ pos \in BOOLEAN
           \* a matrix naming a length change AND a feature, on the word-initial unit of `target(s) + partner` in ONE syllable: the unit changes
           \* length (inv: long -> [-long], otherwise short -> [+long]) and takes the feature; the partner after it is not matched and keeps everything
           \/ shape = "lenmix" /\ kind = "f" /\ d = 0 /\ b % AlphaStride = Seed % AlphaStride
              /\ x \in 1..NFeat /\ g = 0 /\ inv \in BOOLEAN /\ pos \in BOOLEAN

\* the marker used by the "match" shape flips the voicing of the segment, so that a match is visible in the bundle
Marker(s) == SetFeat(s, F_VOICE, ~Bit(s.lar, 4))

F1 == IF inv THEN ((x + 2) % NFeat) + 1 ELSE ((x + 11) % NFeat) + 1          \* the binary feature of a combo: one with a lower, one with a higher index than the alpha
Partner == Base[((b * 7 + x) % Len(Base)) + 1]
Combo(s) == IF MatchFeat(s, F1, pos) /\ AlphaBinds(s, x) THEN SetFeat(s, g, AlphaVal(s, x)) ELSE s
Outcome(s) ==
  CASE shape = "set" /\ kind = "f"   -> <<"ok", SetFeat(s, x, pos)>>
    [] shape = "set" /\ kind = "n"   -> SetNode(s, NodeTab[x], pos)
    [] shape = "match" /\ kind = "f" -> <<"ok", IF MatchFeat(s, x, pos) THEN Marker(s) ELSE s>>
    [] shape = "match" /\ kind = "n" -> <<"ok", IF MatchNode(s, NodeTab[x], pos) THEN Marker(s) ELSE s>>
    [] shape = "alpha"               -> <<"ok", AlphaCopy(s, x, g, inv)>>
    [] shape = "combo"               -> <<"ok", Combo(s)>>
    [] shape = "lenmix"              -> <<"ok", SetFeat(s, x, pos)>>

Next == res = <<>> /\ res' = Outcome(Target(b, d)) /\ UNCHANGED <<b, d, shape, kind, x, pos, g, inv>>

Emit == res # <<>> => PrintT(ToJson([seg |-> Target(b, d), shape |-> shape, kind |-> kind, x |-> x, pos |-> pos, g |-> g, inv |-> inv,
                                     voiced |-> Bit(Target(b, d).lar, 4), st |-> res[1], exp |-> res[2],
                                     f1 |-> F1, seg2 |-> Partner, exp2 |-> IF shape = "combo" THEN Combo(Partner) ELSE Partner]))

\* design-level laws, checked on the same enumeration (every target segment, every feature)
Laws == res # <<>> /\ kind = "f" /\ shape = "set" =>
          LET s == Target(b, d) IN
          /\ SegOK(s) /\ SegOK(SetFeat(s, x, pos))
          /\ SetThenMatch(s, x, pos) /\ NegOnAbsentIsNoop(s, x) /\ FrameFeat(s, x, pos) /\ FrameNodes(s, x, pos)
          /\ CreatedNodeOthersNegative(s, x)
=============================================================================
