---------------------------- MODULE GEN_Text ----------------------------
(* C01 / C09 on segments: for every target bundle of the domain (base, base + one diacritic, thorough: +    *)
(* two diacritics on a seeded part, and single-feature changes) the set of possible renderings, the       *)
(* rendering for the order the code loaded, and what reading it back gives.                               *)
EXTENDS Text, TLC, Json, IOUtils
CONSTANTS Stride1,    \* one-diacritic targets are enumerated for bases b with b % Stride1 = Seed % Stride1 (1 = all)
          MaxDia,     \* 1 or 2
          Stride2,    \* two-diacritic targets are enumerated for bases b with b % Stride2 = Seed % Stride2
          FeatChange  \* TRUE: also every single-feature change of base + <= 1 diacritic (b % Stride2 selected)
Seed == IF "VERIF_SEED" \in DOMAIN IOEnv THEN atoi(IOEnv.VERIF_SEED) ELSE 0
VARIABLES b, d1, d2, fc, res
vars == <<b, d1, d2, fc, res>>
ND == Len(Dia)
App(s, d) == IF d = 0 THEN s ELSE IF MatchMods(s, Dia[d].pre) THEN ApplyPayload(s, Dia[d].pay) ELSE s
Flip(s, f) == IF f = 0 THEN s ELSE IF s[FeatTab[f][1]] = -1 THEN SetFeat(s, f, TRUE) ELSE SetFeat(s, f, ~Bit(s[FeatTab[f][1]], FeatTab[f][2]))
Target == Flip(App(App(Base[b], d1), d2), fc)
Sel == b % Stride2 = Seed % Stride2
Init == /\ b \in 1..Len(Base) /\ d1 \in 0..ND /\ res = <<>>
        /\ \/ d2 = 0 /\ fc = 0 /\ (d1 = 0 \/ b % Stride1 = Seed % Stride1)
           \/ MaxDia = 2 /\ Sel /\ d1 # 0 /\ d2 \in (d1 + 1)..ND /\ fc = 0
           \/ FeatChange /\ Sel /\ d2 = 0 /\ fc \in 1..NFeat
Next == res = <<>> /\ UNCHANGED <<b, d1, d2, fc>> /\
        res' = LET s == Target  ch == RenderChoices(s)  r == RenderIn(s, CandOrder) IN
               [choices |-> ch, det |-> r, back |-> IF r[1] = 0 THEN <<"none", s>> ELSE ParseSeg(r)]
SegT(s) == <<s.rut, s.man, s.lar, s.lab, s.cor, s.dor, s.phr>>
Emit == res # <<>> => PrintT(ToJson([seg |-> SegT(Target), nchoices |-> Cardinality(res.choices), choices |-> res.choices, det |-> res.det,
                                     back |-> <<res.back[1], SegT(res.back[2])>>]))
\* model-level laws (reported through the harness so that a model-level counterexample is always confirmed on the real code first)
=============================================================================
