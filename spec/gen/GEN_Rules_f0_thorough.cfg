INIT Init
NEXT Next
INVARIANT Emit
CHECK_DEADLOCK FALSE
CONSTANTS N = 60000  Mode = "f0"
