INIT Init
NEXT Next
INVARIANT Emit
CHECK_DEADLOCK FALSE
CONSTANTS MaxLen = 5  Stride = 30
