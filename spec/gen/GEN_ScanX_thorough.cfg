INIT Init
NEXT Next
INVARIANT Emit
CHECK_DEADLOCK FALSE
CONSTANTS MaxLen = 4  Stride = 40
