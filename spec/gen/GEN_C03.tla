---------------------------- MODULE GEN_C03 ----------------------------
(* Behaviour emitter for C03: bounded-exhaustive strata of (basic rule, word) with the result of the      *)
(* reference interpreter Scan!RunScan. One state per rule (chosen by indices so that strata can be        *)
(* sampled by arithmetic), one successor per word.                                                        *)
EXTENDS Scan, TLC, Json, IOUtils, SequencesExt
CONSTANTS Stratum,     \* "A": no exception, context sides <= 2; "B": context and exception sides <= 1; "C": two-member environment set, sides <= 1;
                       \* "D": random sample of the full bound (context AND exception sides <= 2), Stride = number of rules, NWords random words each
          MaxLen,      \* longest word (segments)
          Stride,      \* rules are enumerated when their index % Stride = Seed % Stride
          NWords       \* stratum D only: random words per rule
Seed == IF "VERIF_SEED" \in DOMAIN IOEnv THEN atoi(IOEnv.VERIF_SEED) ELSE 0

A == Ascii.a   T == Ascii.t   I == Ascii.i
Inv == <<A, T, I>>
PSYLL == Mx(<<FPos(F_SYLL)>>)   NSYLL == Mx(<<FNeg(F_SYLL)>>)   ANY == Mx(<<>>)
CC == Grp(1)
Inputs  == <<Ipa(A), Ipa(T), PSYLL, NSYLL, ANY, CC, SetOf(<<Ipa(A), Ipa(T)>>), SetOf(<<Ipa(T), PSYLL>>)>>
Outputs == <<Ipa(I), Ipa(T), Mx(<<FNeg(F_SYLL)>>), Mx(<<FPos(F_VOICE)>>), Mx(<<FPos(F_SYLL), FNeg(F_CONS)>>),
             SetOf(<<Ipa(I), Mx(<<FPos(F_VOICE)>>)>>), SetOf(<<Mx(<<FPos(F_VOICE)>>), Mx(<<FNeg(F_SYLL)>>)>>)>>      \* output sets answer the two-member input sets
Elems   == <<Ipa(A), Ipa(T), PSYLL, CC, SetOf(<<Ipa(A), Ipa(T)>>), SB, WB>>
NE == Len(Elems)
\* environment sides in written order; a word boundary may only be the outermost element
Side1B == <<<<>>>> \o [i \in 1..NE |-> <<Elems[i]>>]                                  \* before-sides of length <= 1
Side2B == Side1B \o SetToSeq({ <<Elems[i], Elems[j]>> : i \in 1..NE, j \in 1..(NE - 1) })   \* <<far, near>>, near is not #
Side1A == Side1B
Side2A == Side1A \o SetToSeq({ <<Elems[i], Elems[j]>> : i \in 1..(NE - 1), j \in 1..NE })   \* <<near, far>>, near is not #
SB_ == IF Stratum \in {"A", "D"} THEN Side2B ELSE Side1B
SA_ == IF Stratum \in {"A", "D"} THEN Side2A ELSE Side1A
EB_ == IF Stratum = "D" THEN Side2B ELSE Side1B
EA_ == IF Stratum = "D" THEN Side2A ELSE Side1A

VARIABLES ii, oi, cb, ca, eb, ea, w, res
vars == <<ii, oi, cb, ca, eb, ea, w, res>>

RuleOf == LET c1 == Env(SB_[cb], SA_[ca])  e1 == Env(EB_[eb], EA_[ea]) IN
          CASE Stratum = "A" -> Rule(<<Inputs[ii]>>, <<Outputs[oi]>>, IF c1 = EmptyEnv THEN <<>> ELSE <<c1>>, <<>>)
            [] Stratum \in {"B", "D"} -> Rule(<<Inputs[ii]>>, <<Outputs[oi]>>, IF c1 = EmptyEnv THEN <<>> ELSE <<c1>>, <<e1>>)
            [] Stratum = "C" -> Rule(<<Inputs[ii]>>, <<Outputs[oi]>>, <<c1, e1>>, <<>>)          \* ctx = :{ c1, e1 }:

Index == ii + 8 * oi + 56 * cb + 56 * 64 * ca + 56 * 64 * 64 * eb + 56 * 64 * 64 * 8 * ea

OutFits == Outputs[oi].k = "set" => Inputs[ii].k = "set"
Init == IF Stratum = "D" THEN ii \in 1..Stride /\ oi = 0 /\ cb = 0 /\ ca = 0 /\ eb = 0 /\ ea = 0 /\ w = <<>> /\ res = <<>> ELSE
        /\ ii \in 1..Len(Inputs) /\ oi \in 1..Len(Outputs)
        /\ cb \in 1..Len(SB_) /\ ca \in 1..Len(SA_)
        /\ IF Stratum = "A" THEN eb = 1 /\ ea = 1 ELSE (eb \in 1..Len(Side1B) /\ ea \in 1..Len(Side1A) /\ ~(eb = 1 /\ ea = 1))
        /\ OutFits
        /\ Index % Stride = Seed % Stride
        /\ w = <<>> /\ res = <<>>

\* words: every segment string over the inventory up to MaxLen in every syllabification (bs[i] = "a boundary follows segment i")
RECURSIVE SylOf(_, _)
SylOf(bs, i) == IF i = 1 THEN 1 ELSE SylOf(bs, i - 1) + (IF bs[i - 1] THEN 1 ELSE 0)
Syllabs(n) == { [i \in 1..n |-> SylOf(bs, i)] : bs \in [1..(n - 1) -> BOOLEAN] }
RECURSIVE SegsOfSyl(_, _, _, _)
SegsOfSyl(sg, sy, k, j) == IF j > Len(sg) THEN <<>> ELSE (IF sy[j] = k THEN <<Base[Inv[sg[j]]]>> ELSE <<>>) \o SegsOfSyl(sg, sy, k, j + 1)
StressOf(k, nsyl) == IF k = 1 THEN "P" ELSE IF k = 3 THEN "S" ELSE "U"      \* give the syllables distinguishable stress and tone: they must come back untouched
ToneOf(k) == IF k = 2 THEN 35 ELSE 0
BuildWord(sg, sy) == Word([k \in 1..sy[Len(sy)] |-> Syl(SegsOfSyl(sg, sy, k, 1), StressOf(k, sy[Len(sy)]), ToneOf(k))])
Words == UNION { { BuildWord(sg, sy) : sg \in [1..n -> 1..3], sy \in Syllabs(n) } : n \in 1..(IF Stratum = "D" THEN 1 ELSE MaxLen) }
GoodWords == { x \in Words : NoRuns(x) }

NextABC == res = <<>> /\ \E x \in GoodWords :
          /\ w' = x
          /\ res' = LET r == RunScanF(x, RuleOf) IN [ok |-> r.ok, out |-> Unflat(x, r.segs), steps |-> r.steps]
          /\ UNCHANGED <<ii, oi, cb, ca, eb, ea>>
\* stratum D: first a random rule (oi = 0 marks "not chosen yet"), then NWords random words for it
NextD == \/ /\ oi = 0 /\ ii' = RandomElement(1..Len(Inputs)) /\ oi' = (IF Inputs[ii'].k = "set" THEN RandomElement(1..Len(Outputs)) ELSE RandomElement(1..5))
            /\ cb' = RandomElement(1..Len(SB_)) /\ ca' = RandomElement(1..Len(SA_))
            /\ eb' = RandomElement(1..Len(EB_)) /\ ea' = RandomElement(1..Len(EA_)) /\ UNCHANGED <<w, res>>
         \/ /\ oi # 0 /\ res = <<>> /\ \E k \in 1..NWords :
               /\ \E n \in {RandomElement(3..MaxLen)} :
                     w' = LET bs == RandomElement([1..(n - 1) -> BOOLEAN]) IN BuildWord(RandomElement([1..n -> 1..3]), [i \in 1..n |-> SylOf(bs, i)])
               /\ res' = IF NoRuns(w') THEN LET r == RunScanF(w', RuleOf) IN [ok |-> r.ok, out |-> Unflat(w', r.segs), steps |-> r.steps]
                                       ELSE [ok |-> FALSE, out |-> w', steps |-> <<>>]
               /\ UNCHANGED <<ii, oi, cb, ca, eb, ea>>
Next == IF Stratum = "D" THEN NextD ELSE NextABC

Emit == (res # <<>> /\ res.ok) => PrintT(ToJson([rule |-> RuleOf, w |-> WordT(w), exp |-> WordT(res.out), steps |-> res.steps]))
=============================================================================
