INIT Init
NEXT Next
INVARIANT Emit
CHECK_DEADLOCK FALSE
CONSTANTS N = 15000  Mode = "f1"
