INIT Init
NEXT Next
INVARIANT Emit
CHECK_DEADLOCK FALSE
CONSTANTS MaxGroups = 2  MaxLines = 2  Pairs = FALSE  Stride = 1
