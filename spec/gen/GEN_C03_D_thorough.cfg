INIT Init
NEXT Next
INVARIANT Emit
CHECK_DEADLOCK FALSE
CONSTANTS Stratum = "D"  MaxLen = 6  Stride = 40000  NWords = 60
