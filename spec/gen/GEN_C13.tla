---------------------------- MODULE GEN_C13 ----------------------------
(* C13: (1) every member of every frozen synonym class of feature names, in four letter-case / spacing      *)
(* variants, against the class's canonical spelling, through BOTH lexers (rule and alias);                  *)
(* (2) abstract rules of the full grammar (Grammar!GenAny), each with two seeds that select a respelling    *)
(* of every token that has documented synonyms; and words with two seeds selecting respellings.             *)
EXTENDS Grammar, Lexicon, TLC, Json, IOUtils
CONSTANTS N
Seed == IF "VERIF_SEED" \in DOMAIN IOEnv THEN atoi(IOEnv.VERIF_SEED) ELSE 0
VARIABLES kind, i, j, var, res
SeedOf(k) == (Seed * 7919 + k) % 1000003
Init == /\ res = <<>>
        /\ \/ kind = "feat" /\ i \in 1..NClasses /\ j \in 1..8 /\ var \in 1..4
           \/ kind = "rule" /\ i \in 1..N /\ j = 0 /\ var = 0
Next == /\ res = <<>> /\ UNCHANGED <<kind, i, j, var>>
        /\ (kind = "feat" => j <= Len(FeatSyn[i]))
        /\ res' = IF kind = "feat" THEN <<[canon |-> FeatSyn[i][1], spelling |-> FeatSyn[i][j], fkind |-> FeatKind[i]]>>
                  ELSE <<[rule |-> GenAny(SeedOf(i)), sp1 |-> H(SeedOf(i), 7001), sp2 |-> H(SeedOf(i), 7002)]>>
Emit == res # <<>> => PrintT(ToJson([kind |-> kind, seed |-> SeedOf(i), variant |-> var, v |-> res[1]]))
=============================================================================
