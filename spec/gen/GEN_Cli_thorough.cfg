INIT Init
NEXT Next
INVARIANT Emit
CHECK_DEADLOCK FALSE
CONSTANTS MaxLines = 5  Stride = 3
