INIT Init
NEXT Next
INVARIANT Emit
CHECK_DEADLOCK FALSE
CONSTANTS MaxGroups = 3  MaxLines = 3  Pairs = TRUE  Stride = 97
