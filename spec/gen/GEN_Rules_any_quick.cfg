INIT Init
NEXT Next
INVARIANT Emit
CHECK_DEADLOCK FALSE
CONSTANTS N = 6000  Mode = "any"
