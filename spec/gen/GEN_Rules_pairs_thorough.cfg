INIT Init
NEXT Next
INVARIANT Emit
CHECK_DEADLOCK FALSE
CONSTANTS N = 20000  Mode = "pairs"
