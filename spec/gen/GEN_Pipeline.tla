---------------------------- MODULE GEN_Pipeline ----------------------------
(* Schedules for C10 / C11 / C16, enumerated exhaustively within small bounds. A schedule names rules     *)
(* and words by SLOT numbers; the harness instantiates the slots with real rules and words (several       *)
(* seeded instantiations per schedule) and checks on the real code the law that mc/MC_Pipeline proves     *)
(* for every rule function:                                                                               *)
(*   c10: run(groups)(w) = run(one group)(w) = run(suffix)(render(run(prefix)(w))) for the split point k  *)
(*   c11: run(R, perm(W))[i] = run(R, [W[perm[i]]])[0]; sublists; a line `u v` = run(u) + " " + run(v)    *)
(*   c16: trace_changes / get_trace_string against run on every prefix of the group list                  *)
EXTENDS Integers, Sequences, FiniteSets, TLC, Json, SequencesExt, FiniteSetsExt
CONSTANTS MaxRules, MaxGroups, MaxWords

RECURSIVE Lists(_, _)
Lists(S, n) == IF n = 0 THEN {<<>>} ELSE Lists(S, n - 1) \cup { Append(l, x) : l \in { m \in Lists(S, n - 1) : Len(m) = n - 1 }, x \in S }
RECURSIVE SumSeq(_)
SumSeq(s) == IF s = <<>> THEN 0 ELSE Head(s) + SumSeq(Tail(s))
\* groupings of n rules into at most MaxGroups groups, empty groups allowed: sequences of sizes
Groupings(n) == { g \in Lists(0..n, MaxGroups) : SumSeq(g) = n }
Perms(n) == { p \in [1..n -> 1..n] : \A i, j \in 1..n : i # j => p[i] # p[j] }

VARIABLES kind, n, sizes, sizes2, k, perm, mask, done
vars == <<kind, n, sizes, sizes2, k, perm, mask, done>>

Init == /\ done = FALSE
        /\ \/ /\ kind = "c10" /\ n \in 1..MaxRules /\ sizes \in Groupings(n) /\ sizes2 \in Groupings(n) /\ k \in 0..n
              /\ perm = <<>> /\ mask = <<>>
           \/ /\ kind = "c11" /\ n \in 1..MaxWords /\ perm \in Perms(n) /\ mask \in [1..n -> BOOLEAN]
              /\ sizes = <<>> /\ sizes2 = <<>> /\ k = 0
           \/ /\ kind = "c16" /\ n \in 0..MaxRules /\ sizes \in Groupings(n) /\ k \in 1..3
              /\ sizes2 = <<>> /\ perm = <<>> /\ mask = <<>>
Next == ~done /\ done' = TRUE /\ UNCHANGED <<kind, n, sizes, sizes2, k, perm, mask>>
Emit == done => PrintT(ToJson([kind |-> kind, n |-> n, sizes |-> sizes, sizes2 |-> sizes2, k |-> k, perm |-> perm, mask |-> mask]))
=============================================================================
