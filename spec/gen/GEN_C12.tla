---------------------------- MODULE GEN_C12 ----------------------------
(* C12: (shorthand, expansion) pairs from Grammar!GenShorthand, one per seed. *)
EXTENDS Grammar, TLC, Json, IOUtils
CONSTANTS N
Seed == IF "VERIF_SEED" \in DOMAIN IOEnv THEN atoi(IOEnv.VERIF_SEED) ELSE 0
VARIABLES s, r
SeedOf(i) == (Seed * 7919 + i) % 1000003
\* systematic stratum: every group letter in three positions; the harness runs these pairs on a word around EVERY cardinal of the inventory
Sweep(i) == LET g == ((i - 1) % 9) + 1   shape == ((i - 1) \div 9) + 1
                rl == CASE shape = 1 -> Rule(<<Grp(g)>>, <<Ipa(Ascii.x)>>, <<>>, <<>>)
                       [] shape = 2 -> Rule(<<Ipa(Ascii.a)>>, <<Ipa(Ascii.e)>>, <<Env(<<>>, <<Grp(g)>>)>>, <<>>)
                       [] OTHER     -> Rule(<<WithMods(Grp(g), <<<<"f", F_VOICE, FALSE>>>>)>>, <<Mx(<<<<"f", F_VOICE, TRUE>>>>)>>, <<Env(<<Ipa(Ascii.a)>>, <<>>)>>, <<>>)
            IN [kind |-> "group-sweep", short |-> <<rl>>, parts |-> <<>>, long |-> <<ExpandGroups(rl)>>]
Init == s \in 1..(N + 27) /\ r = <<>>
Next == r = <<>> /\ r' = <<IF s <= N THEN GenShorthand(SeedOf(s)) ELSE Sweep(s - N)>> /\ UNCHANGED s
Emit == r # <<>> => PrintT(ToJson([seed |-> SeedOf(s), kind |-> r[1].kind, short |-> r[1].short, parts |-> r[1].parts, long |-> r[1].long]))
=============================================================================
