---------------------------- MODULE GEN_C12 ----------------------------
(* C12: (shorthand, expansion) pairs from Grammar!GenShorthand, one per seed. *)
EXTENDS Grammar, TLC, Json, IOUtils
CONSTANTS N
Seed == IF "VERIF_SEED" \in DOMAIN IOEnv THEN atoi(IOEnv.VERIF_SEED) ELSE 0
VARIABLES s, r
SeedOf(i) == (Seed * 7919 + i) % 1000003
Init == s \in 1..N /\ r = <<>>
Next == r = <<>> /\ r' = <<GenShorthand(SeedOf(s))>> /\ UNCHANGED s
Emit == r # <<>> => PrintT(ToJson([seed |-> SeedOf(s), kind |-> r[1].kind, short |-> r[1].short, parts |-> r[1].parts, long |-> r[1].long]))
=============================================================================
