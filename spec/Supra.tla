---------------------------- MODULE Supra ----------------------------
(* Suprasegmentals (doc/doc.md, "Suprasegmental Features"): length of a segment unit n in 1..3           *)
(* (short/long/overlong), stress of a syllable st in {"U","P","S"}, tone t (0 = none).                   *)
(* A modifier set is [L, O, S, C : {"0","+","-"}, T : -1 or a tone] for long, overlong, stress,           *)
(* sec.stress and tone (-1 = not mentioned).                                                             *)
EXTENDS Integers, Sequences, FiniteSets

Tri == {"0", "+", "-"}
Max(a, b) == IF a > b THEN a ELSE b
Min(a, b) == IF a < b THEN a ELSE b

MatchLen(n, L, O) == (L = "+" => n >= 2) /\ (L = "-" => n = 1) /\ (O = "+" => n >= 3) /\ (O = "-" => n <= 2)
MatchStr(st, S, C) == (S = "+" => st # "U") /\ (S = "-" => st = "U") /\ (C = "+" => st = "S") /\ (C = "-" => st # "S")
MatchTone(t, T) == T = -1 \/ t = T
ContraLen(L, O) == L = "-" /\ O = "+"
ContraStr(S, C) == S = "-" /\ C = "+"
Contradictory(m) == ContraLen(m.L, m.O) \/ ContraStr(m.S, m.C)

SetLen(n, L, O) == CASE L = "0" /\ O = "0" -> n
                     [] L = "+" /\ O = "0" -> Max(n, 2)
                     [] L = "-" /\ O = "0" -> 1
                     [] L = "0" /\ O = "+" -> Max(n, 3)
                     [] L = "0" /\ O = "-" -> Min(n, 2)
                     [] L = "+" /\ O = "+" -> Max(n, 3)
                     [] L = "+" /\ O = "-" -> 2
                     [] L = "-" /\ O = "-" -> 1
                     [] OTHER -> -1
SetStr(st, S, C) == CASE S = "0" /\ C = "0" -> st
                      [] S = "+" /\ C = "0" -> "P"
                      [] S = "-" /\ C = "0" -> "U"
                      [] S = "0" /\ C = "+" -> "S"
                      [] S = "0" /\ C = "-" -> (IF st = "S" THEN "U" ELSE st)
                      [] S = "+" /\ C = "+" -> "S"
                      [] S = "+" /\ C = "-" -> "P"
                      [] S = "-" /\ C = "-" -> "U"
                      [] OTHER -> "ERR"
SetTone(t, T) == IF T = -1 THEN t ELSE T

Match(m, n, st, t) == MatchLen(n, m.L, m.O) /\ MatchStr(st, m.S, m.C) /\ MatchTone(t, m.T)

(* the law the property states: setting a modifier leaves the target in a state that the same modifier matches *)
SetThenMatch(m, n, st, t) == ~Contradictory(m) => Match(m, SetLen(n, m.L, m.O), SetStr(st, m.S, m.C), SetTone(t, m.T))
(* and leaves the other suprasegmentals alone *)
FrameLaw(m, n, st, t) == /\ (m.L = "0" /\ m.O = "0") => SetLen(n, m.L, m.O) = n
                         /\ (m.S = "0" /\ m.C = "0") => SetStr(st, m.S, m.C) = st
                         /\ m.T = -1 => SetTone(t, m.T) = t
=============================================================================
