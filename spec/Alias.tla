---------------------------- MODULE Alias ----------------------------
(* C15: romanisation as a pure text transducer over the default rendering (doc/doc.md "Romanisation",      *)
(* "Plus Operator"; src/word.rs Word::render).                                                             *)
(* A romaniser is [inp |-> sequence of segment elements (RuleAst: IPA literal or matrix), out |-> string id *)
(* (0 = delete), plus |-> BOOLEAN] or the boundary alias [inp |-> <<SB>>, ...]. Aliases are tried in order   *)
(* at every segment position of a syllable; the first whose whole input matches there wins and consumes     *)
(* the matched segments. The printed form is a sequence of tokens:                                           *)
(*   <<"g", segment>> default rendering of a segment   <<"r", k>> replacement string k                      *)
(*   <<"b", mark>> a boundary / stress mark ("." , "P", "S")  or  <<"br", k>> its replacement                *)
(*   <<"t", n>> the tone digits of a syllable                                                               *)
(* Fragment: words without length (the renderer's treatment of long segments under `+` is not specified       *)
(* enough in the manual to be an oracle). A word typed in americanist notation keeps that notation for the   *)
(* segments no romaniser replaces (the harness spells "g" tokens accordingly).                               *)
EXTENDS Scan

IsBoundAlias(a) == Len(a.inp) = 1 /\ a.inp[1].k = "sb"
\* does alias a match the segments g starting at position j
\* an element may carry stress and tone modifiers (`V:[+stress, -sec.stress]`, `a:[tone: 55]`): they are tested on the syllable the segment is in
\* (Supra!MatchStr / MatchTone). A romaniser that names a tone and fires in a syllable has "used up" that syllable's tone: the digits are not printed
\* (manual: `xan:[tone: 51] => 汉`, `han51.y214` becomes `汉语`); the tones of other syllables are untouched.
SegFm(fm) == SelectSeq(fm, LAMBDA m : m[1] \in {"f", "n"})
SupraOK(fm, st, t) == \A i \in 1..Len(fm) :
                        CASE fm[i][1] = "s" -> (IF fm[i][2] = "stress" THEN (st # "U") = fm[i][3] ELSE IF fm[i][2] = "sec.stress" THEN (st = "S") = fm[i][3] ELSE TRUE)
                          [] fm[i][1] = "t" -> t = fm[i][2]
                          [] OTHER -> TRUE
ElemMatchS(e, s, st, t) == ElemMatch([e EXCEPT !.fm = SegFm(e.fm)], s) /\ SupraOK(e.fm, st, t)
NamesTone(a) == \E i \in 1..Len(a.inp) : \E k \in 1..Len(a.inp[i].fm) : a.inp[i].fm[k][1] = "t"
MatchesAt(a, g, j, st, t) == ~IsBoundAlias(a) /\ j + Len(a.inp) - 1 <= Len(g) /\ \A i \in 1..Len(a.inp) : ElemMatchS(a.inp[i], g[j + i - 1], st, t)
FirstAlias(as, g, j, st, t) == LET S == { i \in 1..Len(as) : MatchesAt(as[i], g, j, st, t) } IN IF S = {} THEN 0 ELSE CHOOSE i \in S : \A k \in S : i <= k
RECURSIVE RomSyl(_, _, _, _, _)
RomSyl(as, g, j, st, t) ==
  IF j > Len(g) THEN <<>>
  ELSE LET i == FirstAlias(as, g, j, st, t) IN
       IF i = 0 THEN <<<<"g", g[j]>>>> \o RomSyl(as, g, j + 1, st, t)
       ELSE LET a == as[i]  n == Len(a.inp) IN
            (IF a.plus THEN [x \in 1..n |-> <<"g", g[j + x - 1]>>] ELSE <<>>)
            \o (IF a.out = 0 THEN <<>> ELSE <<<<"r", a.out>>>>)
            \o RomSyl(as, g, j + n, st, t)
\* did a tone-naming romaniser fire somewhere in the syllable (same walk as RomSyl)
RECURSIVE ToneUsed(_, _, _, _, _)
ToneUsed(as, g, j, st, t) ==
  IF j > Len(g) THEN FALSE
  ELSE LET i == FirstAlias(as, g, j, st, t) IN
       IF i = 0 THEN ToneUsed(as, g, j + 1, st, t) ELSE NamesTone(as[i]) \/ ToneUsed(as, g, j + Len(as[i].inp), st, t)
BoundAlias(as) == LET S == { i \in 1..Len(as) : IsBoundAlias(as[i]) } IN IF S = {} THEN 0 ELSE CHOOSE i \in S : \A k \in S : i >= k     \* the last one wins
Mark(w, i) == CASE w.s[i].st = "P" -> "P" [] w.s[i].st = "S" -> "S" [] OTHER -> IF i > 1 THEN "." ELSE ""
RECURSIVE RomWord(_, _, _)
RomWord(as, w, i) ==
  IF i > Len(w.s) THEN <<>>
  ELSE LET m == Mark(w, i) IN (IF m = "" THEN <<>> ELSE <<<<"b", m>>>>) \o RomSyl(as, w.s[i].g, 1, w.s[i].st, w.s[i].t)
                                                               \o (IF w.s[i].t # 0 /\ ~ToneUsed(as, w.s[i].g, 1, w.s[i].st, w.s[i].t) THEN <<<<"t", w.s[i].t>>>> ELSE <<>>)
                                                               \o RomWord(as, w, i + 1)
\* the boundary alias rewrites the marks of the finished text: a stress mark at the very beginning is dropped
\* (when the replacement is not empty), every other mark becomes the replacement string (or disappears)
Rebound(toks, b, as) ==
  IF b = 0 THEN toks
  ELSE IF as[b].out = 0 THEN SelectSeq(toks, LAMBDA t : t[1] # "b")
  ELSE LET rest == IF toks # <<>> /\ toks[1][1] = "b" /\ toks[1][2] \in {"P", "S"} THEN Tail(toks) ELSE toks
       IN [i \in 1..Len(rest) |-> IF rest[i][1] = "b" THEN <<"br", as[b].out>> ELSE rest[i]]
RomaniseFrom(as, w) == Rebound(RomWord(as, w, 1), BoundAlias(as), as)
Default(w) == RomaniseFrom(<<>>, w)
=============================================================================
