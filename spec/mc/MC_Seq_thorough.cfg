SPECIFICATION Spec
INVARIANT ValidIffAcyclic
INVARIANT Correct
INVARIANT AllDelivered
INVARIANT StackBounded
PROPERTY Terminates
CHECK_DEADLOCK FALSE
CONSTANTS N = 4
  G <- GFree
  J <- JFree
  B <- BFree
