SPECIFICATION Spec
INVARIANT ValidIffAcyclic
INVARIANT Correct
INVARIANT AllDelivered
INVARIANT StackBounded
PROPERTY Terminates
CHECK_DEADLOCK FALSE
CONSTANTS N = 3
  G <- GFree
  J <- JFree
  B <- BFree
