---------------------------- MODULE MC_ScanX ----------------------------
(* The interpreter beyond the basic fragment as an explicit state machine (substitution of n by n,        *)
(* deletion, metathesis, insertion): FindMatch -> EnvReject | Substitute | Delete | Metathesise | Refuse, *)
(* FindGap -> Insert, ... -> Finish. Model-checked exhaustively over a small rule pool and all small      *)
(* words over {a, t, i}:                                                                                  *)
(*   Refines     the machine ends in exactly ScanX!RunX (generators and trace validation use RunX)        *)
(*   WordInv     C08: every intermediate word is well formed (no empty syllable, at least one syllable)   *)
(*   Measure     C02: every step strictly decreases (remaining positions, phase) - termination            *)
(*   MetKeeps    C14-like: metathesis permutes the segments and keeps the syllable shape and prosody      *)
(*   SubKeeps    C14: n-by-n substitution keeps syllable shape and prosody                                *)
(*   DelShrinks  deletion only removes segments, in order (the result is a subsequence)                   *)
(*   InsGrows    insertion only adds segments (the input is a subsequence of the result)                  *)
(*   NoMatchStutter C06: if the input matches nowhere / no gap satisfies the context, nothing changes     *)
EXTENDS ScanX, TLC
CONSTANTS MaxLen

A == Ascii.a   T == Ascii.t   I == Ascii.i
Inv == <<A, T, I>>
CC == Grp(1)   VV == Grp(9)
Seqs == << <<Ipa(T), Ipa(A)>>, <<CC, VV>>, <<Ipa(A)>>, <<VV, CC, VV>>, <<SetOf(<<Ipa(A), Ipa(I)>>), Ipa(T)>> >>
OutOf(n) == IF n = 1 THEN <<Ipa(I)>> ELSE IF n = 2 THEN <<Ipa(I), Mx(<<FPos(F_VOICE)>>)>> ELSE <<Ipa(T), Ipa(I), Mx(<<FNeg(F_SYLL)>>)>>
Elems == <<Ipa(A), CC, WB>>
Sides == {<<>>} \cup { <<Elems[i]>> : i \in 1..Len(Elems) }
Envs  == { Env(b, a) : b \in Sides, a \in Sides }

RECURSIVE SylOf(_, _)
SylOf(bs, i) == IF i = 1 THEN 1 ELSE SylOf(bs, i - 1) + (IF bs[i - 1] THEN 1 ELSE 0)
RECURSIVE SegsOfSyl(_, _, _, _)
SegsOfSyl(sg, sy, k, j) == IF j > Len(sg) THEN <<>> ELSE (IF sy[j] = k THEN <<Base[Inv[sg[j]]]>> ELSE <<>>) \o SegsOfSyl(sg, sy, k, j + 1)
BuildWord(sg, sy) == Word([k \in 1..sy[Len(sy)] |-> Syl(SegsOfSyl(sg, sy, k, 1), IF k = 1 THEN "P" ELSE IF k = 3 THEN "S" ELSE "U", IF k = 2 THEN 35 ELSE 0)])
Words == UNION { { BuildWord(sg, [i \in 1..n |-> SylOf(bs, i)]) : sg \in [1..n -> 1..3], bs \in [1..(n - 1) -> BOOLEAN] } : n \in 1..MaxLen }

VARIABLES rule, w0, fx, cur, phase, found, okf
vars == <<rule, w0, fx, cur, phase, found, okf>>

Rules == { Rule(Seqs[i], OutOf(Len(Seqs[i])), IF c = EmptyEnv THEN <<>> ELSE <<c>>, <<>>) : i \in 1..Len(Seqs), c \in Envs }
    \cup { Rule(Seqs[i], <<Empty>>, IF c = EmptyEnv THEN <<>> ELSE <<c>>, <<>>) : i \in 1..Len(Seqs), c \in Envs }
    \cup { Rule(Seqs[i], <<Met>>, IF c = EmptyEnv THEN <<>> ELSE <<c>>, <<>>) : i \in {1, 2, 4, 5}, c \in Envs }
    \cup { Rule(<<Empty>>, o, <<c>>, e) : o \in {<<Ipa(I)>>, <<Ipa(I), Ipa(T)>>}, c \in Envs \ {EmptyEnv}, e \in {<<>>, <<Env(<<Ipa(T)>>, <<>>)>>} }

Init == /\ rule \in Rules
        /\ w0 \in { x \in Words : NoRuns(x) }
        /\ fx = FlatX(w0) /\ cur = (IF Kind(rule) = "ins" THEN 0 ELSE 1) /\ phase = "scan" /\ found = -1 /\ okf = TRUE

n_ == Len(rule.inp)
FindMatch == /\ phase = "scan" /\ Kind(rule) # "ins" /\ NextSeq(fx, rule.inp, cur) # 0
             /\ found' = NextSeq(fx, rule.inp, cur) /\ phase' = "matched" /\ UNCHANGED <<rule, w0, fx, cur, okf>>
FindGap   == /\ phase = "scan" /\ Kind(rule) = "ins" /\ NextGap(fx, rule, cur) # -1
             /\ found' = NextGap(fx, rule, cur) /\ phase' = "matched" /\ UNCHANGED <<rule, w0, fx, cur, okf>>
Finish    == /\ phase = "scan"
             /\ IF Kind(rule) = "ins" THEN NextGap(fx, rule, cur) = -1 ELSE NextSeq(fx, rule.inp, cur) = 0
             /\ phase' = "done" /\ UNCHANGED <<rule, w0, fx, cur, found, okf>>
EnvReject == /\ phase = "matched" /\ Kind(rule) # "ins" /\ ~EnvOKX(fx, found, found + n_ - 1, rule)
             /\ cur' = found + n_ /\ phase' = "scan" /\ UNCHANGED <<rule, w0, fx, found, okf>>
Substitute == /\ phase = "matched" /\ Kind(rule) = "sub" /\ EnvOKX(fx, found, found + n_ - 1, rule)
              /\ fx' = SubstAt(fx, rule, found) /\ cur' = found + n_ /\ phase' = "scan" /\ okf' = (okf /\ NoAdjEqF(fx')) /\ UNCHANGED <<rule, w0, found>>
Metathesise == /\ phase = "matched" /\ Kind(rule) = "met" /\ EnvOKX(fx, found, found + n_ - 1, rule)
               /\ fx' = MetathAt(fx, n_, found) /\ cur' = found + n_ /\ phase' = "scan" /\ okf' = (okf /\ NoAdjEqF(fx')) /\ UNCHANGED <<rule, w0, found>>
Delete    == /\ phase = "matched" /\ Kind(rule) = "del" /\ EnvOKX(fx, found, found + n_ - 1, rule) /\ Len(fx.segs) > n_
             /\ fx' = DeleteAt(fx, n_, found) /\ cur' = found /\ phase' = "scan" /\ okf' = (okf /\ NoAdjEqF(fx')) /\ UNCHANGED <<rule, w0, found>>
Refuse    == /\ phase = "matched" /\ Kind(rule) = "del" /\ EnvOKX(fx, found, found + n_ - 1, rule) /\ Len(fx.segs) = n_
             /\ phase' = "error" /\ UNCHANGED <<rule, w0, fx, cur, found, okf>>
Insert    == /\ phase = "matched" /\ Kind(rule) = "ins"
             /\ fx' = InsertAt2(fx, rule.out, found) /\ cur' = found + Len(rule.out) + 1 /\ phase' = "scan" /\ okf' = (okf /\ NoAdjEqF(fx')) /\ UNCHANGED <<rule, w0, found>>
Next == FindMatch \/ FindGap \/ Finish \/ EnvReject \/ Substitute \/ Metathesise \/ Delete \/ Refuse \/ Insert
Spec == Init /\ [][Next]_vars /\ WF_vars(Next)

Res == RunX(w0, rule)
Refines == /\ phase = "done"  => (Res.fx = fx /\ ~Res.err /\ Res.ok = okf)
           /\ phase = "error" => (Res.err /\ Res.fx = fx)
WordInv == WordOK(UnflatX(fx))
Shape(f) == <<f.syl, f.pros>>
SubKeeps == Kind(rule) = "sub" => Shape(fx) = Shape(FlatX(w0))
MetKeeps == Kind(rule) = "met" => (Shape(fx) = Shape(FlatX(w0)) /\ Bag(fx.segs) = Bag(FlatX(w0).segs))
RECURSIVE IsSubseq(_, _)
IsSubseq(a, b) == IF a = <<>> THEN TRUE ELSE IF b = <<>> THEN FALSE ELSE IF Head(a) = Head(b) THEN IsSubseq(Tail(a), Tail(b)) ELSE IsSubseq(a, Tail(b))
DelShrinks == Kind(rule) = "del" => IsSubseq(fx.segs, FlatX(w0).segs)
InsGrows == Kind(rule) = "ins" => IsSubseq(FlatX(w0).segs, fx.segs)
CanStart == IF Kind(rule) = "ins" THEN NextGap(FlatX(w0), rule, 0) # -1 ELSE \E p \in 1..Len(FlatX(w0).segs) : SeqAt(FlatX(w0), rule.inp, p)
NoMatchStutter == ~CanStart => fx = FlatX(w0)
\* termination: the pair (positions still ahead of the cursor, phase) decreases lexicographically at every step
Ahead == Len(fx.segs) + 1 - cur
Measure == [][ \/ Ahead' < Ahead
               \/ (Ahead' = Ahead /\ phase = "scan" /\ phase' # "scan")
               \/ (Ahead' = Ahead /\ phase = "matched" /\ phase' = "error") ]_vars
Terminates == <>(phase \in {"done", "error"})
=============================================================================
