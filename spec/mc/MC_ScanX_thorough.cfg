SPECIFICATION Spec
CONSTANTS MaxLen = 4
INVARIANTS Refines WordInv SubKeeps MetKeeps DelShrinks InsGrows NoMatchStutter
PROPERTIES Measure Terminates
CHECK_DEADLOCK FALSE
