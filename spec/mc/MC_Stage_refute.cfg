INIT Init
NEXT Next
INVARIANT Compose
CHECK_DEADLOCK FALSE
