---------------------------- MODULE MC_Seq ----------------------------
(* The resolver of src/cli/seq.rs as an explicit machine with a call stack and the per-tag result cache    *)
(* (get_words -> run_sequence -> get_words ...), for every config of N tags (every `from` function,        *)
(* cyclic and dangling ones included), every uninterpreted stage function and every order in which the      *)
(* tags are requested:                                                                                      *)
(*   ValidIffAcyclic   the validator accepts exactly the acyclic configs without dangling references        *)
(*   Correct           every delivered result is the composition along the chain, cache hit or not          *)
(*   Terminates        on validated configs the resolver always finishes                                    *)
EXTENDS Seq, TLC
CONSTANTS N
\* the free interpretation of the stage functions
GFree(t, e, v) == Append(v, <<"apply", t, e>>)
JFree(v, t) == Append(v, <<"append-words", t, 0>>)
BFree(t) == << <<"words", t, 0>> >>
NONE == <<>>
Confs == [1..N -> [from : 0..(N + 1), nent : 1..2]]
VARIABLES conf, order, oi, stack, cache, out, phase
vars == <<conf, order, oi, stack, cache, out, phase>>
Perms == { p \in [1..N -> 1..N] : \A i, j \in 1..N : i # j => p[i] # p[j] }

Init == /\ conf \in Confs
        /\ order \in Perms /\ oi = 1 /\ stack = <<>> /\ cache = [t \in 1..N |-> NONE] /\ out = [t \in 1..N |-> NONE]
        /\ phase = IF Validate(conf, N) THEN "idle" ELSE "rejected"

\* a frame: [t |-> tag, st |-> "words" | "run", e |-> next entry, v |-> current lexicon]
Request  == /\ phase = "idle" /\ stack = <<>> /\ oi <= N
            /\ stack' = <<[t |-> order[oi], st |-> "words", e |-> 1, v |-> NONE]>>
            /\ UNCHANGED <<conf, order, oi, cache, out, phase>>
Top == stack[Len(stack)]
SetTop(f) == [stack EXCEPT ![Len(stack)] = f]
OwnWords == /\ stack # <<>> /\ Top.st = "words" /\ conf[Top.t].from = 0
            /\ stack' = SetTop([Top EXCEPT !.st = "run", !.v = B(Top.t)])
            /\ UNCHANGED <<conf, order, oi, cache, out, phase>>
CacheHit == /\ stack # <<>> /\ Top.st = "words" /\ conf[Top.t].from # 0 /\ cache[conf[Top.t].from] # NONE
            /\ stack' = SetTop([Top EXCEPT !.st = "run", !.v = J(cache[conf[Top.t].from], Top.t)])
            /\ UNCHANGED <<conf, order, oi, cache, out, phase>>
Recurse  == /\ stack # <<>> /\ Top.st = "words" /\ conf[Top.t].from # 0 /\ cache[conf[Top.t].from] = NONE
            /\ stack' = Append(stack, [t |-> conf[Top.t].from, st |-> "words", e |-> 1, v |-> NONE])
            /\ UNCHANGED <<conf, order, oi, cache, out, phase>>
RunStage == /\ stack # <<>> /\ Top.st = "run" /\ Top.e <= conf[Top.t].nent
            /\ stack' = SetTop([Top EXCEPT !.e = @ + 1, !.v = G(Top.t, Top.e, Top.v)])
            /\ UNCHANGED <<conf, order, oi, cache, out, phase>>
Return   == /\ stack # <<>> /\ Top.st = "run" /\ Top.e > conf[Top.t].nent
            /\ cache' = [cache EXCEPT ![Top.t] = Top.v]                       \* CacheStore (seq.rs get_words / handle_sequence)
            /\ IF Len(stack) = 1
               THEN /\ out' = [out EXCEPT ![Top.t] = Top.v] /\ oi' = oi + 1 /\ stack' = <<>>
               ELSE /\ stack' = SubSeq(stack, 1, Len(stack) - 1) /\ UNCHANGED <<out, oi>>      \* the parent finds the value in the cache
            /\ UNCHANGED <<conf, order, phase>>
Done     == /\ phase = "idle" /\ stack = <<>> /\ oi > N /\ phase' = "done"
            /\ UNCHANGED <<conf, order, oi, stack, cache, out>>
Next == Request \/ OwnWords \/ CacheHit \/ Recurse \/ RunStage \/ Return \/ Done
Spec == Init /\ [][Next]_vars /\ WF_vars(Next)

ValidIffAcyclic == Validate(conf, N) <=> (Acyclic(conf, N) /\ NoDangling(conf, N))
Correct == phase # "rejected" => \A t \in 1..N : /\ (out[t] # NONE => out[t] = Result(conf, t))
                                                 /\ (cache[t] # NONE => cache[t] = Result(conf, t))
AllDelivered == phase = "done" => \A t \in 1..N : out[t] # NONE
StackBounded == Len(stack) <= N
Terminates == (phase = "idle") ~> (phase = "done")
=============================================================================
