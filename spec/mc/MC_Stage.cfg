INIT Init
NEXT Next
INVARIANT ComposeNoAmer
INVARIANT Boundary
CHECK_DEADLOCK FALSE
