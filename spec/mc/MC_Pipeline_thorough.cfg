INIT Init
NEXT Next
INVARIANT InvOkAgree
INVARIANT InvC16
INVARIANT InvC11
INVARIANT InvC10
CHECK_DEADLOCK FALSE
CONSTANTS NGroups = 3
