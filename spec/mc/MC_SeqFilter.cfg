INIT Init
NEXT Next
INVARIANT WithoutLaw
INVARIANT OnlyLaw
INVARIANT Partition
CHECK_DEADLOCK FALSE
CONSTANTS
  G <- GFree
  J <- JFree
  B <- BFree
