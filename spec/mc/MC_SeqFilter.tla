---------------------------- MODULE MC_SeqFilter ----------------------------
(* C20, the filters of a rule-file entry: Seq!FilterOnly / Seq!FilterWithout are what GEN_Seq's plans are built from, so *)
(* their meaning is checked here against the sentences of the manual, for every group list of <= 3 groups (names in      *)
(* mixed letter case) and every filter list of <= 3 names (other letter case, duplicates and a missing name included):   *)
(*  `!`: exactly the groups not named survive, each once, in the order of the file;                                     *)
(*  `~`: exactly the named groups, in the order named (an error, <<>>, iff a name is missing);                          *)
(*  for a filter list without duplicates whose names all exist, `~` and `!` partition the file.                         *)
EXTENDS Seq, TLC
GFree(t, e, v) == v
JFree(v, t) == v
BFree(t) == <<>>
Fold(x) == x % 100
GroupNames == {1, 102, 3}                                   \* as written in the file
WantNames == {1, 101, 2, 102, 3, 103, 4}                    \* as written in the filter; 4 names no group
SeqsUpTo(S, n) == UNION { [1..k -> S] : k \in 1..n }
Injective(s) == \A i, j \in 1..Len(s) : i # j => Fold(s[i]) # Fold(s[j])
GroupLists == { s \in SeqsUpTo(GroupNames, 3) : Injective(s) }
VARIABLES g, w, chk
Init == g \in GroupLists /\ w \in SeqsUpTo(WantNames, 3) /\ chk = FALSE
Next == ~chk /\ chk' = TRUE /\ UNCHANGED <<g, w>>

Named(x) == \E i \in 1..Len(w) : Fold(w[i]) = Fold(x)
AllExist == \A i \in 1..Len(w) : \E j \in 1..Len(g) : Fold(g[j]) = Fold(w[i])
InFileOrder(r) == \E f \in [1..Len(r) -> 1..Len(g)] :
                      (\A k \in 1..Len(r) : r[k] = g[f[k]]) /\ (\A i, j \in 1..Len(r) : i < j => f[i] < f[j])
Elems(s) == { s[i] : i \in 1..Len(s) }
WithoutLaw == chk => LET r == FilterWithout(g, w, Fold) IN
    /\ InFileOrder(r)
    /\ Elems(r) = { x \in Elems(g) : ~Named(x) }
OnlyLaw == chk => LET r == FilterOnly(g, w, Fold) IN
    IF AllExist THEN /\ Len(r) = Len(w)
                     /\ \A i \in 1..Len(w) : Fold(r[i]) = Fold(w[i]) /\ r[i] \in Elems(g)
                ELSE r = <<>>
Partition == chk => ((AllExist /\ Injective(w)) =>
    /\ Elems(FilterOnly(g, w, Fold)) \cup Elems(FilterWithout(g, w, Fold)) = Elems(g)
    /\ Elems(FilterOnly(g, w, Fold)) \cap Elems(FilterWithout(g, w, Fold)) = {})
=============================================================================
