INIT Init
NEXT Next
INVARIANT WellFormedIffRoundTrips
INVARIANT AliasRT
CHECK_DEADLOCK FALSE
