---------------------------- MODULE MC_Pipeline ----------------------------
(* Exhaustive check of the pipeline laws for EVERY rule function F on a tiny domain.                      *)
EXTENDS Pipeline, TLC
CONSTANTS NGroups      \* longest group list
Word == 0..1
Errs == {-1, -2}
RuleId == 1..2
Val == Word \cup Errs
GroupSet == {<<>>} \cup { <<a>> : a \in RuleId } \cup { <<a, b>> : a \in RuleId, b \in RuleId }
RECURSIVE Lists(_, _)
Lists(S, n) == IF n = 0 THEN {<<>>} ELSE Lists(S, n - 1) \cup { Append(l, x) : l \in { m \in Lists(S, n - 1) : Len(m) = n - 1 }, x \in S }
GroupLists == Lists(GroupSet, NGroups)
Phrases == { <<a>> : a \in Word } \cup { <<a, b>> : a \in Word, b \in Word }
RuleSeqs == Lists(RuleId, 3)

VARIABLES F, G, P, chk       \* chk: laws are evaluated on the successor state so that all workers share the work
Init == F \in [RuleId \X Word -> Val] /\ G \in GroupLists /\ P \in Phrases /\ chk = FALSE
Next == ~chk /\ chk' = TRUE /\ UNCHANGED <<F, G, P>>

InvOkAgree == chk => OkAgree(F, G, P)
InvC16 == chk => C16Law(F, G, P)
InvC11 == chk => C11Law(F, G, P)
\* C10 for every split point of the flattened list and the canonical regroupings (all in one group, one rule per group, with empty groups)
InvC10 == chk => LET rs == Flatten(G) IN
          /\ \A k \in 0..Len(rs) : \A v \in Word : C10Split(F, rs, k, v)
          /\ C10Regroup(F, G, <<rs>>, P)
          /\ C10Regroup(F, G, <<<<>>>> \o [i \in 1..Len(rs) |-> <<rs[i]>>] \o <<<<>>>>, P)
SameErr == chk => ((Run(F, G, P).err # 0) => Run(F, G, P).err = Trace(F, G, P).err)       \* deliberately NOT required (refuted by TLC)
=============================================================================
