SPECIFICATION Spec
INVARIANT Refines
INVARIANT WordInv
INVARIANT ProsKept
INVARIANT NoMatchStutter
PROPERTY Progress
PROPERTY Terminates
CHECK_DEADLOCK FALSE
CONSTANTS MaxLen = 3
