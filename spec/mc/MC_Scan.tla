---------------------------- MODULE MC_Scan ----------------------------
(* The rule interpreter as an explicit state machine (one action per critical section of                 *)
(* SubRule::apply, src/subrule.rs): FindMatch -> EnvReject | Transform -> ... -> Finish.                 *)
(* Model-checked exhaustively over a small rule pool and all small words:                                *)
(*   Refines    the machine ends in exactly Scan!RunScan (so generators may use the recursive operator) *)
(*   WordInv    C08: every intermediate word is well formed                                              *)
(*   Progress   C02: every step moves the cursor strictly to the right (=> termination)                  *)
(*   ProsKept   C14: a segment-only rule never changes syllable count, boundaries, stress or tone        *)
(*   NoMatchStutter  C06: if no segment of the word matches the input the word never changes             *)
EXTENDS Scan, TLC
CONSTANTS MaxLen

A == Ascii.a   T == Ascii.t   I == Ascii.i
Inv == <<A, T, I>>
PSYLL == Mx(<<FPos(F_SYLL)>>)   CC == Grp(1)
Inputs  == <<Ipa(A), PSYLL, CC, SetOf(<<Ipa(A), Ipa(T)>>), Ipa(Ascii.k)>>
Outputs == <<Ipa(I), Mx(<<FNeg(F_SYLL)>>), Mx(<<FPos(F_VOICE)>>)>>
Elems   == <<Ipa(A), CC, SB, WB>>
Sides   == {<<>>} \cup { <<Elems[i]>> : i \in 1..Len(Elems) }
Envs    == { Env(b, a) : b \in Sides, a \in Sides }

RECURSIVE SylOf(_, _)
SylOf(bs, i) == IF i = 1 THEN 1 ELSE SylOf(bs, i - 1) + (IF bs[i - 1] THEN 1 ELSE 0)
RECURSIVE SegsOfSyl(_, _, _, _)
SegsOfSyl(sg, sy, k, j) == IF j > Len(sg) THEN <<>> ELSE (IF sy[j] = k THEN <<Base[Inv[sg[j]]]>> ELSE <<>>) \o SegsOfSyl(sg, sy, k, j + 1)
BuildWord(sg, sy) == Word([k \in 1..sy[Len(sy)] |-> Syl(SegsOfSyl(sg, sy, k, 1), IF k = 1 THEN "P" ELSE "U", IF k = 2 THEN 35 ELSE 0)])
Words == UNION { { BuildWord(sg, [i \in 1..n |-> SylOf(bs, i)]) : sg \in [1..n -> 1..3], bs \in [1..(n - 1) -> BOOLEAN] } : n \in 1..MaxLen }

VARIABLES rule, w0, fw, cur, phase, found, steps
vars == <<rule, w0, fw, cur, phase, found, steps>>

Init == /\ \E ii \in 1..Len(Inputs), oi \in 1..Len(Outputs), c \in Envs, hasExc \in BOOLEAN :
             \E e \in (IF hasExc THEN {Env(<<Ipa(T)>>, <<>>), Env(<<>>, <<SB>>)} ELSE {EmptyEnv}) :
               rule = Rule(<<Inputs[ii]>>, <<Outputs[oi]>>, IF c = EmptyEnv THEN <<>> ELSE <<c>>, IF hasExc THEN <<e>> ELSE <<>>)
        /\ w0 \in { x \in Words : NoRuns(x) }
        /\ fw = Flat(w0) /\ cur = 1 /\ phase = "scan" /\ found = 0 /\ steps = <<>>

FindMatch == /\ phase = "scan" /\ NextMatch(fw, rule, cur) # 0
             /\ found' = NextMatch(fw, rule, cur) /\ phase' = "matched"
             /\ UNCHANGED <<rule, w0, fw, cur, steps>>
Finish    == /\ phase = "scan" /\ NextMatch(fw, rule, cur) = 0
             /\ phase' = "done" /\ UNCHANGED <<rule, w0, fw, cur, found, steps>>
EnvReject == /\ phase = "matched" /\ ~EnvOK(fw, found, rule)
             /\ cur' = found + 1 /\ phase' = "scan" /\ steps' = Append(steps, <<found, FALSE>>)
             /\ UNCHANGED <<rule, w0, fw, found>>
Transform == /\ phase = "matched" /\ EnvOK(fw, found, rule)
             /\ fw' = [fw EXCEPT !.segs[found] = RewriteBy(rule.inp[1], fw.segs[found], rule.out[1])]
             /\ cur' = found + 1 /\ phase' = "scan" /\ steps' = Append(steps, <<found, TRUE>>)
             /\ UNCHANGED <<rule, w0, found>>
Next == FindMatch \/ Finish \/ EnvReject \/ Transform
Spec == Init /\ [][Next]_vars /\ WF_vars(Next)

Refines   == phase = "done" => (fw.segs = RunScanF(w0, rule).segs /\ steps = RunScanF(w0, rule).steps)
WordInv   == WordOK(Unflat(w0, fw.segs))
ProsKept  == ProsTier(Unflat(w0, fw.segs)) = ProsTier(w0) /\ Len(fw.segs) = Len(Flat(w0).segs)
CanMatch  == \E p \in 1..Len(Flat(w0).segs) : ElemMatch(rule.inp[1], Flat(w0).segs[p])
NoMatchStutter == ~CanMatch => fw = Flat(w0)
Progress  == [][cur' >= cur /\ (cur' # cur => cur' > cur) /\ (phase = "matched" => cur' > cur)]_vars
Terminates == <>(phase = "done")
=============================================================================
