---------------------------- MODULE MC_Cli ----------------------------
(* Exhaustive check of the file-format round trips on all small projects, and of the claim that            *)
(* Cli!WellFormed is EXACTLY the set of round-trippable projects (so "well-formed" is derived, not decreed). *)
EXTENDS Cli, TLC
Names == 0..1
RuleVals == 1..2
DescSet == { <<0>>, <<1>>, <<1, 2>>, <<1, 0>>, <<0, 1>>, <<1, 0, 2>>, <<0, 0>> }
RuleSeqs == {<<>>} \cup { <<a>> : a \in RuleVals } \cup { <<a, b>> : a \in RuleVals, b \in RuleVals }
Groups == [name : Names, rules : RuleSeqs, desc : DescSet]
Projects == { <<g>> : g \in Groups } \cup { <<g, h>> : g \in Groups, h \in Groups }
AliasVals == 1..2
ASeqs == {<<>>} \cup { <<a>> : a \in AliasVals } \cup { <<a, b>> : a \in AliasVals, b \in AliasVals }
VARIABLES p, a, chk
Init == p \in Projects /\ a \in [into : ASeqs, from : ASeqs] /\ chk = FALSE
Next == ~chk /\ chk' = TRUE /\ UNCHANGED <<p, a>>
WellFormedIffRoundTrips == chk => (WellFormed(p) <=> RoundTrip(p))
AliasRT == chk => AliasRoundTrip(a)
=============================================================================
