---------------------------- MODULE MC_Stage ----------------------------
(* C10 at model level with the americanist flag made explicit. A word carries `amer`; Parse sets it from   *)
(* the spelling of the input text, rules never change it, Render spells a bundle americanist only if the  *)
(* flag is set and the bundle has an americanist spelling (src/word.rs render_normal / Word::new).         *)
(* Compose (staging = one run) is REFUTED by TLC (known finding C10-KF1, reproduced on the real code);     *)
(* ComposeNoAmer - the same for inputs not spelled americanist - holds for every rule function.            *)
EXTENDS Integers, Sequences, FiniteSets, TLC
Ids == 0..2
AmerIds == {0}            \* bundles that have an americanist spelling
RuleId == 1..2
RuleSeqs == { <<a>> : a \in RuleId } \cup { <<a, b>> : a \in RuleId, b \in RuleId } \cup { <<a, b, c>> : a \in RuleId, b \in RuleId, c \in RuleId }
VARIABLES F, R, k, w0, chk
\* text = <<id, spelledAmericanist>> ; the input text decides the flag
Parse(t) == [id |-> t[1], amer |-> t[2]]
Render(w) == <<w.id, w.amer /\ w.id \in AmerIds>>
RECURSIVE Apply(_, _)
Apply(rs, w) == IF rs = <<>> THEN w ELSE Apply(Tail(rs), [w EXCEPT !.id = F[<<Head(rs), w.id>>]])
Mono == Render(Apply(R, Parse(w0)))
Staged == Render(Apply(SubSeq(R, k+1, Len(R)), Parse(Render(Apply(SubSeq(R, 1, k), Parse(w0))))))
Init == /\ F \in [RuleId \X Ids -> Ids] /\ R \in RuleSeqs /\ k \in 0..3 /\ w0 \in { <<i, a>> : i \in Ids, a \in BOOLEAN }
        /\ k <= Len(R) /\ (w0[2] => w0[1] \in AmerIds) /\ chk = FALSE
Next == ~chk /\ chk' = TRUE /\ UNCHANGED <<F, R, k, w0>>
Compose == chk => Mono = Staged
ComposeNoAmer == chk => (~w0[2] => Mono = Staged)
\* the precise boundary of the finding: a disagreement needs an americanist input, an intermediate without americanist grapheme, and a later rule creating one
Boundary == chk => (Mono # Staged => (w0[2] /\ ~Render(Apply(SubSeq(R, 1, k), Parse(w0)))[2] /\ Mono[2]))
=============================================================================
