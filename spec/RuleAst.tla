---------------------------- MODULE RuleAst ----------------------------
(* Abstract syntax of sound-change rules, after doc/grammars/rule_peg.md.                                 *)
(* Every element is a record of one uniform shape so that TLC can put elements in sets:                   *)
(*    [k |-> kind, id |-> Int, fm |-> modifier sequence, items |-> sequence of elements]                  *)
(*  k = "ipa"  id = cardinal id (index into Inventory!Base), fm = extra modifiers                         *)
(*      "mx"   a feature matrix, fm = <<"f", feature, positive>> / <<"n", node, positive>> entries        *)
(*      "grp"  a group letter, id = index into GroupLetters                                               *)
(*      "set"  items = the alternatives                                                                   *)
(*      "wb"   word boundary #      "sb"  syllable boundary $                                             *)
(*      "syl"  a syllable %, fm = stress/tone modifiers    "struct" <items>:fm  a syllable structure      *)
(*      "opt"  (items, id:hi) optional, id = minimum, hi = maximum (0 = unbounded)                        *)
(*      "ell"  ellipsis ...   "var" id = variable number   "empty" *   "met" &                            *)
(*    var |-> n > 0: the element is bound to variable n (`=n`)                                            *)
(* modifier entries: <<"f", feature, sign>>, <<"n", node, sign>>, <<"s", supra name, sign>>, <<"t", tone>> *)
(*    sign = TRUE / FALSE (binary) or "A".."Z" / "-A".."-Z" (alpha, inverted alpha)                       *)
(* An environment is [b |-> elements before the underline, a |-> elements after it], both in written      *)
(* order (left to right). A (sub-)rule is [inp, out : Seq(element), ctx, exc : Seq(environment)]; more    *)
(* than one environment in ctx/exc is an environment set :{ .. }:.                                        *)
EXTENDS Features

El(k, id, fm, items) == [k |-> k, id |-> id, fm |-> fm, items |-> items, var |-> 0, hi |-> 0]
Ipa(id)    == El("ipa", id, <<>>, <<>>)
Mx(fm)     == El("mx", 0, fm, <<>>)
Grp(g)     == El("grp", g, <<>>, <<>>)
SetOf(its) == El("set", 0, <<>>, its)
WB         == El("wb", 0, <<>>, <<>>)
SylEl(fm)  == El("syl", 0, fm, <<>>)
Struct(its, fm) == El("struct", 0, fm, its)
Opt(its, lo, hi) == [El("opt", lo, <<>>, its) EXCEPT !.hi = hi]
Ell        == El("ell", 0, <<>>, <<>>)
VarRef(n)  == El("var", n, <<>>, <<>>)
Empty      == El("empty", 0, <<>>, <<>>)
Met        == El("met", 0, <<>>, <<>>)
Bind(e, n) == [e EXCEPT !.var = n]
WithMods(e, fm) == [e EXCEPT !.fm = @ \o fm]
SB         == El("sb", 0, <<>>, <<>>)
Env(b, a)  == [b |-> b, a |-> a]
EmptyEnv   == Env(<<>>, <<>>)
Rule(i, o, c, e) == [inp |-> i, out |-> o, ctx |-> c, exc |-> e]

FPos(f) == <<"f", f, TRUE>>
FNeg(f) == <<"f", f, FALSE>>
F_CONS == 1  F_SON == 2  F_SYLL == 3  F_CONT == 4  F_APPROX == 5  F_LAT == 6  F_NAS == 7  F_DR == 8

(* the group letters and the matrices the manual gives for them (doc/doc.md "Groupings") *)
GroupLetters == <<"C", "O", "S", "P", "F", "L", "N", "G", "V">>
GroupMx == << <<FNeg(F_SYLL)>>,
              <<FPos(F_CONS), FNeg(F_SON), FNeg(F_SYLL)>>,
              <<FPos(F_CONS), FPos(F_SON), FNeg(F_SYLL)>>,
              <<FPos(F_CONS), FNeg(F_SON), FNeg(F_SYLL), FNeg(F_DR), FNeg(F_CONT)>>,
              <<FPos(F_CONS), FNeg(F_SON), FNeg(F_SYLL), FNeg(F_APPROX), FPos(F_CONT)>>,
              <<FPos(F_CONS), FPos(F_SON), FNeg(F_SYLL), FPos(F_APPROX)>>,
              <<FPos(F_CONS), FPos(F_SON), FNeg(F_SYLL), FNeg(F_APPROX), FPos(F_NAS)>>,
              <<FNeg(F_CONS), FPos(F_SON), FNeg(F_SYLL)>>,
              <<FNeg(F_CONS), FPos(F_SON), FPos(F_SYLL)>> >>

IsSegElem(e) == e.k \in {"ipa", "mx", "grp", "set"}
=============================================================================
