INIT Init
NEXT Next
INVARIANT Report
CHECK_DEADLOCK FALSE
CONSTANTS Law = "C15"
