---------------------------- MODULE TV_Pipeline ----------------------------
(* Trace validation (implementation -> specification) of the two loop nests of src/lib.rs.                *)
(* Input: ndjson, one record per workload item (a rule-group list and some word lists), holding several   *)
(* calls made in ONE process: run on the list, run on a permutation, run on every singleton, trace of     *)
(* every phrase. Words and errors are interned by the harness: words are ids >= 0, errors ids < 0.        *)
(* Every event emitted by the hooks must be enabled in the machine below (one action per hook), the       *)
(* history variable memo (rule, word) -> result must stay a FUNCTION across all calls of the record        *)
(* (C01: same input, same output; C11: no dependence on position or neighbours), and at every Return      *)
(* the value returned by the code must equal Pipeline!Run / Pipeline!Trace evaluated on memo (C11, C16).  *)
EXTENDS Pipeline, TLC, Json, IOUtils
Rec == ndJsonDeserialize(IOEnv.TRACE)

VARIABLES k, c, l, st, memo, bad
\* st: the loop state of the current call
vars == <<k, c, l, st, memo, bad>>

Shape == Rec[k].shape                         \* rules per group
NG == Len(Shape)
RECURSIVE Off(_)
Off(g) == IF g <= 1 THEN 0 ELSE Off(g - 1) + Shape[g - 1]
Rid(g, r) == Off(g) + r                       \* global rule id of rule r (1-based) in group g (1-based)
Groups == [g \in 1..NG |-> [r \in 1..Shape[g] |-> Rid(g, r)]]
Call == Rec[k].calls[c]
Ev == Call.events
NoCall == c > Len(Rec[k].calls)

RunInit == [mode |-> "run", pi |-> 0, wi |-> 0, gi |-> -1, ri |-> 0, cur |-> -1, ph |-> "idle", out |-> <<>>, acc |-> <<>>]
TraceInit(p) == [mode |-> "trace", gi |-> 0, j |-> Len(p), ri |-> 0, ph |-> "idle", phrase |-> p, snap |-> p, snapped |-> TRUE, changes |-> <<>>]
InitCall(cc) == IF cc > Len(Rec[k].calls) THEN [mode |-> "end"]
                ELSE IF Rec[k].calls[cc].kind = "run" THEN RunInit ELSE TraceInit(Rec[k].calls[cc].input)

Init == /\ k \in 1..Len(Rec) /\ c = 1 /\ l = 1 /\ memo = {} /\ bad = FALSE
        /\ st = InitCall(1)

Consistent(m, rid, b, a) == \A x \in m : (x[1] = rid /\ x[2] = b) => x[3] = a
IsEv(name) == ~NoCall /\ l <= Len(Ev) /\ Ev[l][1] = name
Step == l' = l + 1 /\ UNCHANGED <<k, c, bad>>

(* ---------------- run loop (apply_rule_groups) ---------------- *)
RunPhrase == /\ IsEv("RP") /\ st.mode = "run" /\ st.gi = -1
             /\ (IF st.pi = 0 THEN TRUE ELSE st.wi = Len(Call.input[st.pi])) /\ st.pi < Len(Call.input)
             /\ st' = [st EXCEPT !.pi = @ + 1, !.wi = 0, !.out = IF st.pi = 0 THEN <<>> ELSE Append(@, st.acc), !.acc = <<>>]
             /\ Step /\ UNCHANGED memo
RunWord   == /\ IsEv("RW") /\ st.mode = "run" /\ st.pi >= 1 /\ st.gi = -1 /\ st.wi < Len(Call.input[st.pi])
             /\ Ev[l][2] = Call.input[st.pi][st.wi + 1]
             /\ st' = [st EXCEPT !.wi = @ + 1, !.gi = 0, !.ri = 0, !.cur = Ev[l][2]]
             /\ Step /\ UNCHANGED memo
RunGroup  == /\ IsEv("RG") /\ st.mode = "run" /\ st.gi >= 0 /\ st.gi < NG /\ st.ph = "idle"
             /\ (IF st.gi = 0 THEN TRUE ELSE st.ri = Shape[st.gi])
             /\ st' = [st EXCEPT !.gi = @ + 1, !.ri = 0]
             /\ Step /\ UNCHANGED memo
RunApply  == /\ IsEv("RA") /\ st.mode = "run" /\ st.gi >= 1 /\ st.ph = "idle" /\ st.ri < Shape[st.gi]
             /\ Ev[l][2] = st.cur                                   \* the rule is given the word the previous rule returned: no cross-word data flow
             /\ st' = [st EXCEPT !.ri = @ + 1, !.ph = "applying"]
             /\ Step /\ UNCHANGED memo
RunApplied == /\ IsEv("RD") /\ st.mode = "run" /\ st.ph = "applying"
              /\ Consistent(memo, Rid(st.gi, st.ri), st.cur, Ev[l][2])
              /\ memo' = memo \cup {<<Rid(st.gi, st.ri), st.cur, Ev[l][2]>>}
              /\ st' = [st EXCEPT !.cur = Ev[l][2], !.ph = "idle"]
              /\ Step
RunWordEnd == /\ IsEv("RE") /\ st.mode = "run" /\ st.ph = "idle" /\ st.gi = NG /\ (IF NG = 0 THEN TRUE ELSE st.ri = Shape[NG])
              /\ Ev[l][2] = st.cur
              /\ st' = [st EXCEPT !.gi = -1, !.acc = Append(@, st.cur)]
              /\ Step /\ UNCHANGED memo

(* ---------------- trace loop (apply_rules_trace) ---------------- *)
TraceGroup == /\ IsEv("TG") /\ st.mode = "trace" /\ st.ph = "idle" /\ st.snapped /\ st.gi < NG
              /\ st' = [st EXCEPT !.gi = @ + 1, !.j = 0, !.ri = 0, !.snap = st.phrase, !.snapped = FALSE]
              /\ Step /\ UNCHANGED memo
TraceWord  == /\ IsEv("TW") /\ st.mode = "trace" /\ st.ph = "idle" /\ ~st.snapped /\ st.j < Len(st.phrase)
              /\ (IF st.j = 0 THEN TRUE ELSE st.ri = Shape[st.gi])
              /\ Ev[l][2] = st.j                                    \* 0-based index, in order
              /\ st' = [st EXCEPT !.j = @ + 1, !.ri = 0]
              /\ Step /\ UNCHANGED memo
TraceApply == /\ IsEv("TA") /\ st.mode = "trace" /\ st.ph = "idle" /\ st.j >= 1 /\ st.ri < Shape[st.gi]
              /\ Ev[l][2] = st.phrase[st.j]
              /\ st' = [st EXCEPT !.ri = @ + 1, !.ph = "applying"]
              /\ Step /\ UNCHANGED memo
TraceApplied == /\ IsEv("TD") /\ st.mode = "trace" /\ st.ph = "applying"
                /\ Consistent(memo, Rid(st.gi, st.ri), st.phrase[st.j], Ev[l][2])
                /\ memo' = memo \cup {<<Rid(st.gi, st.ri), st.phrase[st.j], Ev[l][2]>>}
                /\ st' = [st EXCEPT !.phrase[st.j] = Ev[l][2], !.ph = "idle"]
                /\ Step
TraceSnapshot == /\ IsEv("TS") /\ st.mode = "trace" /\ st.ph = "idle" /\ ~st.snapped /\ st.j = Len(st.phrase)
                 /\ (IF Len(st.phrase) = 0 THEN TRUE ELSE st.ri = Shape[st.gi])
                 /\ Ev[l][2] = (st.phrase # st.snap)                \* a change is reported iff the phrase differs from the snapshot
                 /\ st' = [st EXCEPT !.snapped = TRUE, !.changes = IF st.phrase # st.snap THEN Append(@, <<st.gi, st.phrase>>) ELSE @]
                 /\ Step /\ UNCHANGED memo

(* ---------------- return of a call ---------------- *)
MemoF(mm) == [x \in { <<m[1], m[2]>> : m \in mm } |-> (CHOOSE m \in mm : m[1] = x[1] /\ m[2] = x[2])[3]]
FlatIn(inp) == LET RECURSIVE Cat(_) Cat(i) == IF i > Len(inp) THEN <<>> ELSE inp[i] \o Cat(i + 1) IN Cat(1)
Lens(inp) == [i \in 1..Len(inp) |-> Len(inp[i])]
RECURSIVE Regroup(_, _, _)
Regroup(flat, lens, i) == IF i > Len(lens) THEN <<>> ELSE <<SubSeq(flat, 1, lens[i])>> \o Regroup(SubSeq(flat, lens[i] + 1, Len(flat)), lens, i + 1)
ReturnOK(mm) ==
  IF st.mode = "run" THEN
     LET spec == Run(MemoF(mm), Groups, FlatIn(Call.input)) IN
     IF Call.ret.ok
     THEN /\ st.gi = -1 /\ st.pi = Len(Call.input) /\ (IF st.pi = 0 THEN TRUE ELSE st.wi = Len(Call.input[st.pi]))
          /\ spec.err = 0 /\ Regroup(spec.out, Lens(Call.input), 1) = Call.ret.out
          /\ (IF st.pi = 0 THEN <<>> ELSE Append(st.out, st.acc)) = Call.ret.out
     ELSE /\ (st.ph = "applying" \/ Len(Ev) = 0)
          /\ (st.ph = "applying" => spec.err = Call.ret.err)        \* the error is the one of the first failing word (word-major order)
  ELSE
     LET spec == Trace(MemoF(mm), Groups, Call.input) IN
     IF Call.ret.ok
     THEN /\ st.snapped /\ st.gi = NG /\ spec.err = 0
          /\ Len(spec.changes) = Len(Call.ret.changes)
          /\ \A i \in 1..Len(spec.changes) : spec.changes[i][1] = Call.ret.changes[i][1] + 1 /\ spec.changes[i][2] = Call.ret.changes[i][2]
          /\ st.changes = spec.changes
     ELSE /\ (st.ph = "applying" \/ Len(Ev) = 0)
          /\ (st.ph = "applying" => spec.err = Call.ret.err)
Failing == st.ph = "applying" /\ ~Call.ret.ok
FailKey == <<Rid(st.gi, st.ri), IF st.mode = "run" THEN st.cur ELSE st.phrase[st.j]>>
NewMemo == IF Failing THEN memo \cup {<<FailKey[1], FailKey[2], Call.ret.err>>} ELSE memo
Return == /\ ~NoCall /\ l = Len(Ev) + 1
          /\ memo' = NewMemo
          /\ c' = c + 1 /\ l' = 1 /\ st' = InitCall(c + 1)
          /\ bad' = ~((Failing => Consistent(memo, FailKey[1], FailKey[2], Call.ret.err)) /\ ReturnOK(NewMemo))
          /\ UNCHANGED k

TraceNext == RunPhrase \/ RunWord \/ RunGroup \/ RunApply \/ RunApplied \/ RunWordEnd
             \/ TraceGroup \/ TraceWord \/ TraceApply \/ TraceApplied \/ TraceSnapshot \/ Return
Stuck == ~NoCall /\ ~bad /\ ~ENABLED TraceNext /\ bad' = TRUE /\ UNCHANGED <<k, c, l, st, memo>>
Next == (~bad /\ TraceNext) \/ Stuck

Accepted == ~bad
Report == bad => PrintT(ToJson([rejected_record |-> k, call |-> c, event |-> l, state |-> st]))
=============================================================================
