---------------------------- MODULE TV_Laws ----------------------------
(* Per-call validation (implementation -> specification) of executions of generated rules.                *)
(* One ndjson record per call; every record is an independent one-step behaviour: Init picks the record,  *)
(* the law of the property (a constant of the configuration) is evaluated on it, a rejected record is     *)
(* printed. Words arrive in the harness's projection {"s":[{"g":[[rut,man,lar,lab,cor,dor,phr],..],       *)
(* "st":..,"t":..}]} (plus "raw" = [root, manner, laryngeal, packed place | -1] for C08).                 *)
EXTENDS WordStruct, PlacePacking, TLC, Json, IOUtils
CONSTANTS Law
Rec == ndJsonDeserialize(IOEnv.TRACE)

SegR(t) == [rut |-> t[1], man |-> t[2], lar |-> t[3], lab |-> t[4], cor |-> t[5], dor |-> t[6], phr |-> t[7]]
WordR(j) == [s |-> [i \in 1..Len(j.s) |-> [g |-> [x \in 1..Len(j.s[i].g) |-> SegR(j.s[i].g[x])], st |-> j.s[i].st, t |-> j.s[i].t]], am |-> FALSE]

(* C06: a rule that cannot match (planted absent literal, blank or comment line) leaves the word untouched in every respect *)
C06Law(r) == r.out = "ok" => r.a = r.w
(* C07: a rule that restates its input through captures leaves every word exactly as it was *)
C07Law(r) == r.out = "ok" => r.a = r.w
(* C14: the untouched tier of the result equals that tier of the input *)
C14Law(r) == r.out = "ok" => IF r.cls \in {"seg-ipa", "seg-mx"} THEN ProsTier(r.a) = ProsTier(r.w) ELSE SegTier(r.a) = SegTier(r.w)
(* C08: every intermediate word is well formed, down to the stored bits *)
RawOK(x) == /\ x[1] \in 0..7 /\ x[2] \in 0..255 /\ x[3] \in 0..7
            /\ (x[4] = -1 \/ (x[4] \in 1..65535 /\ WellFormed(x[4])))
C08Law(r) == /\ WordOK(WordR(r.w))
             /\ \A i \in 1..Len(r.w.s) : \A j \in 1..Len(r.w.s[i].raw) : RawOK(r.w.s[i].raw[j])
(* C02: the call returned a value, and no main-loop state (site, cursor, word) was visited twice *)
NoRepeat(ticks) == Cardinality({ ticks[i] : i \in 1..Len(ticks) }) = Len(ticks)
C02Law(r) == r.out \in {"ok", "err"} /\ r.out2 = "ret" /\ NoRepeat(r.ticks)

(* C09: a renderable word reads back as itself, and its text is a fixed point of the empty rule list *)
C09Law(r) == r.ok => (r.b = r.w /\ r.fix)
(* C01: all observations of one input - in whichever process, call, list position - carry the same result *)
C01Law(r) == Cardinality({ r.obs[i][4] : i \in 1..Len(r.obs) }) = 1

(* C15: with romanisers the same rules fire on the same words (a = b: the sequence of words entering and leaving every rule);  *)
(*      a deromanised spelling gives exactly the result of the IPA it stands for (same)                                          *)
C15Law(r) == r.same /\ r.a = r.b

Holds(r) == CASE Law = "C15" -> C15Law(r) [] Law = "C01" -> C01Law(r) [] Law = "C09" -> C09Law(r) [] Law = "C02" -> C02Law(r) [] Law = "C06" -> C06Law(r) [] Law = "C07" -> C07Law(r) [] Law = "C08" -> C08Law(r) [] Law = "C14" -> C14Law(r)

VARIABLES k, verdict
Init == k \in 1..Len(Rec) /\ verdict = "?"
Next == verdict = "?" /\ verdict' = (IF Holds(Rec[k]) THEN "accepted" ELSE "rejected") /\ UNCHANGED k
Report == verdict = "rejected" => PrintT(ToJson([rejected_record |-> Rec[k].id]))
=============================================================================
