---------------------------- MODULE TV_ScanX ----------------------------
(* Trace validation (implementation -> specification) for the fragment F1 of ScanX over the full inventory: *)
(* recorded applications of n-by-n substitutions, deletions, metatheses and insertions are judged by TLC     *)
(* against ScanX!RunX. Informational (no listed property speaks about these results): see DESIGN 10.1.       *)
EXTENDS ScanX, TLC, Json, IOUtils
Rec == ndJsonDeserialize(IOEnv.TRACE)
SegR(t) == [rut |-> t[1], man |-> t[2], lar |-> t[3], lab |-> t[4], cor |-> t[5], dor |-> t[6], phr |-> t[7]]
WordR(j) == [s |-> [i \in 1..Len(j.s) |-> [g |-> [x \in 1..Len(j.s[i].g) |-> SegR(j.s[i].g[x])], st |-> j.s[i].st, t |-> j.s[i].t]], am |-> FALSE]
Judge(r) == LET w == WordR(r.w)  res == RunX(w, r.rule) IN
            IF ~res.ok THEN "skipped"
            ELSE IF res.err THEN (IF r.out = "err" THEN "accepted" ELSE "rejected")
            ELSE IF r.out = "ok" /\ UnflatX(res.fx) = WordR(r.a) THEN "accepted" ELSE "rejected"
VARIABLES k, verdict
Init == k \in 1..Len(Rec) /\ verdict = "?"
Next == verdict = "?" /\ verdict' = Judge(Rec[k]) /\ UNCHANGED k
Report == /\ verdict = "rejected" => PrintT(ToJson([rejected_record |-> Rec[k].id]))
          /\ verdict = "skipped" => PrintT(ToJson([skipped_record |-> Rec[k].id]))
=============================================================================
