---------------------------- MODULE TV_Scan ----------------------------
(* Trace validation (implementation -> specification) for C03 over the full inventory.                     *)
(* Each record is one application of a basic-fragment rule recorded from the real interpreter: the rule AST, *)
(* the word, the per-iteration (position found, environment verdict) sequence reported by the hooks in      *)
(* SubRule::apply, and the resulting word. TLC runs the reference machine Scan!RunScanF on the same rule and *)
(* word and accepts the record iff the implementation's every iteration and its result are the specification's. *)
EXTENDS Scan, TLC, Json, IOUtils
Rec == ndJsonDeserialize(IOEnv.TRACE)
SegR(t) == [rut |-> t[1], man |-> t[2], lar |-> t[3], lab |-> t[4], cor |-> t[5], dor |-> t[6], phr |-> t[7]]
WordR(j) == [s |-> [i \in 1..Len(j.s) |-> [g |-> [x \in 1..Len(j.s[i].g) |-> SegR(j.s[i].g[x])], st |-> j.s[i].st, t |-> j.s[i].t]], am |-> FALSE]
Judge(r) == LET w == WordR(r.w)  res == RunScanF(w, r.rule) IN
            IF ~res.ok THEN "skipped"                                                                   \* records in which a run of equal segments arises are outside the fragment
            ELSE IF r.out = "ok" /\ Unflat(w, res.segs) = WordR(r.a) /\ res.steps = r.steps THEN "accepted" ELSE "rejected"
VARIABLES k, verdict
Init == k \in 1..Len(Rec) /\ verdict = "?"
Next == verdict = "?" /\ verdict' = Judge(Rec[k]) /\ UNCHANGED k
Report == /\ verdict = "rejected" => PrintT(ToJson([rejected_record |-> Rec[k].id]))
          /\ verdict = "skipped" => PrintT(ToJson([skipped_record |-> Rec[k].id]))
=============================================================================
