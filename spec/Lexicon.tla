---------------------------- MODULE Lexicon ----------------------------
(* C13: frozen synonym classes (GENERATED ONCE from spec/frozen/lexicon.json, committed). FeatSyn[i][1] is the     *)
(* canonical spelling of class i; every other member must behave identically in both lexers, in any letter case    *)
(* and with blanks between its characters. Token synonyms that contain non-ASCII characters are named here and      *)
(* spelled by the harness.                                                                                          *)
EXTENDS Sequences
FeatSyn == <<
  <<"root", "rut", "rt">>,
  <<"consonantal", "consonant", "cons", "cns">>,
  <<"sonorant", "sonor", "son", "snrt", "sn">>,
  <<"syllabic", "syllab", "syll", "syl">>,
  <<"manner", "mann", "man", "mnnr", "mnr">>,
  <<"continuant", "contin", "cont", "cnt">>,
  <<"approximant", "approx", "appr", "app">>,
  <<"lateral", "latrl", "ltrl", "lat">>,
  <<"nasal", "nsl", "nas">>,
  <<"delayedrelease", "delrel", "d.r.", "del.rel.", "delayed", "dl", "dlrl", "dr", "delay", "drelease", "del.rel", "drel">>,
  <<"strident", "strid", "stri", "stridnt">>,
  <<"rhotic", "rhot", "rho", "rhtc", "rh">>,
  <<"click", "clik", "clk", "clck">>,
  <<"laryngeal", "laryng", "laryn", "lar">>,
  <<"voice", "voi", "vce", "vc">>,
  <<"spreadglottis", "spreadglot", "spread", "s.g.", "s.g", "sg">>,
  <<"constrictedglottis", "constricted", "constglot", "constr", "c.g.", "c.g", "cg">>,
  <<"place", "plce", "plc">>,
  <<"labial", "lbl", "lab">>,
  <<"labiodental", "ldental", "labiodent", "labio", "labiod", "labdent", "lbdntl", "ldent", "ldl">>,
  <<"round", "rund", "rnd", "rd">>,
  <<"coronal", "coron", "crnl", "cor">>,
  <<"anterior", "anter", "antr", "ant">>,
  <<"distributed", "distrib", "dist", "dis", "dst">>,
  <<"dorsal", "drsl", "dors", "dor">>,
  <<"front", "frnt", "fnt", "fro", "frt", "fr">>,
  <<"back", "bck", "bk">>,
  <<"high", "hgh", "hi">>,
  <<"low", "lw", "lo">>,
  <<"tense", "tens", "tns", "ten">>,
  <<"reduced", "reduc", "redu", "rdcd", "red">>,
  <<"pharyngeal", "pharyng", "pharyn", "phar", "phr">>,
  <<"advancedtongueroot", "a.t.r.", "a.t.r", "a.tr", "at.r", "atr">>,
  <<"retractedtongueroot", "r.t.r.", "r.t.r", "r.tr", "rt.r", "rtr">>,
  <<"long", "lng">>,
  <<"overlong", "overlng", "ovrlng", "vlong", "olong", "vlng", "olng">>,
  <<"stress", "str">>,
  <<"secondarystress", "sec.stress", "secstress", "sec.str.", "sec.str", "secstr", "sec">>
>>
FeatKind == <<"Node", "Feat", "Feat", "Feat", "Node", "Feat", "Feat", "Feat", "Feat", "Feat", "Feat", "Feat", "Feat", "Node", "Feat", "Feat", "Feat", "Node", "Node", "Feat", "Feat", "Node", "Feat", "Feat", "Node", "Feat", "Feat", "Feat", "Feat", "Feat", "Feat", "Node", "Feat", "Feat", "Supr", "Supr", "Supr", "Supr">>
Arrows == <<">", "=>", "->">>
Pipes == <<"|", "//">>
Empties == <<"*", "EMPTYSET">>
Ellipses == <<"...", "..", "HELLIP">>
NClasses == Len(FeatSyn)
=============================================================================
