//! C03, direction implementation -> specification: applications of basic-fragment rules over the FULL inventory are
//! recorded from the real interpreter (result and per-iteration events) for validation by spec/tv/TV_Scan.tla.
use asca::verif as v;
use asca::RuleGroup;
use crate::proj::*;
use crate::util::*;
use crate::rules;
use crate::tables;
use crate::laws::{w_compact, Writer};
use crate::scan::steps_of;
use serde_json::{json, Value};

fn collect_ids(e: &Value, out: &mut Vec<usize>) {
    if e["k"] == "ipa" { out.push(e["id"].as_u64().unwrap() as usize); }
    if let Some(a) = e["items"].as_array() { for x in a { collect_ids(x, out); } }
}

pub fn record(rules_file: &str, out: &str, nwords: usize) {
    let t = tables::load();
    let seed = env_u64("VERIF_SEED", 1);
    let f = std::io::BufReader::new(std::fs::File::open(rules_file).expect("rules file"));
    let mut asts: Vec<Value> = Vec::new();
    tlc_vectors(f, |x| asts.push(x), |_| {});
    asts.sort_by_key(|x| x["seed"].as_u64().unwrap_or(0));
    let mut w = Writer::new(out);
    let mut sum = Summary::default();
    let al = v::no_aliases();
    let common: Vec<usize> = ["a", "i", "u", "t", "k", "s", "n", "l", "m", "e"].iter().filter_map(|g| t.cards.iter().position(|(h, _)| h == g).map(|i| i + 1)).collect();
    for a in &asts {
        let rule = &a["rule"];
        let text = rules::rule_text(rule, &t);
        let mut ids: Vec<usize> = Vec::new();
        for k in ["inp", "out"] { for e in rule[k].as_array().unwrap() { collect_ids(e, &mut ids); } }
        for k in ["ctx", "exc"] { for env in rule[k].as_array().unwrap() { for side in ["b", "a"] { for e in env[side].as_array().unwrap() { collect_ids(e, &mut ids); } } } }
        let mut rng = Rng::new(seed.wrapping_mul(2711).wrapping_add(a["seed"].as_u64().unwrap_or(0)));
        let mut pool = ids.clone(); pool.extend(common.iter().cloned());
        for _ in 0..4 { pool.push(1 + rng.below(t.cards.len())); }
        for _ in 0..nwords {
            // a random word over the rule's own literals and a few other cardinals, in a random syllabification, without in-syllable runs
            let n = 1 + rng.below(6);
            let mut sylls: Vec<(Vec<v::Segment>, u8, u16)> = vec![(vec![], rng.below(3) as u8, 0)];
            for i in 0..n {
                let seg = t.cards[*rng.pick(&pool) - 1].1;
                if i > 0 && rng.chance(1, 3) && !sylls.last().unwrap().0.is_empty() { sylls.push((vec![], rng.below(3) as u8, if rng.chance(1, 4) { 35 } else { 0 })); }
                if sylls.last().unwrap().0.last() == Some(&seg) { continue; }
                sylls.last_mut().unwrap().0.push(seg);
            }
            sylls.retain(|s| !s.0.is_empty());
            if sylls.is_empty() { continue; }
            let word = v::make_word(&sylls, false);
            let (t2, w2) = (text.clone(), word.clone());
            let rec = crate::util::rec(200_000, true, false, move || {
                let rs = v::parse_rules(&[RuleGroup::from_rules(vec![t2])])?;
                let steps = v::apply_structural(&rs, w2.clone())?;
                Ok::<_, asca::Error>(steps.last().map(|s| s.word.clone()).unwrap_or(w2))
            });
            sum.vectors += 1;
            let (outk, after) = match &rec.result { Ok(Ok(x)) => ("ok", x.clone()), Ok(Err(_)) => ("err", word.clone()), Err(_) => ("panic", word.clone()) };
            if after != word { sum.nontrivial += 1; }
            let steps: Vec<Value> = steps_of(&rec.events, &word).iter().map(|(p, ok)| json!([p, ok])).collect();
            w.put(json!({"rule": rule, "w": w_compact(&word, false), "a": w_compact(&after, false), "out": outk, "steps": steps}),
                  json!({"rule": text, "word": v::render_word(&word, &al), "after": v::render_word(&after, &al), "outcome": outk,
                         "detail": match &rec.result { Ok(Err(e)) => err_key(e), Err(p) => panic_msg(p), _ => String::new() }, "steps": steps}));
            // binding self-test: every 97th changed record is written a second time claiming the word did not change; TLC must reject the copy
            if after != word && outk == "ok" && sum.nontrivial % 97 == 1 {
                w.put(json!({"rule": rule, "w": w_compact(&word, false), "a": w_compact(&word, false), "out": outk, "steps": steps}),
                      json!({"corrupt": true, "rule": text, "word": v::render_word(&word, &al)}));
                sum.count("corrupted_copies", 1);
            }
            if sum.samples.len() < 5 && after != word { sum.sample(|| json!({"rule": text, "word": v::render_word(&word, &al), "after": v::render_word(&after, &al)})); }
        }
    }
    sum.agree = sum.vectors;
    sum.count("records", w.n);
    sum.print();
}

/// fragment F1 (ScanX): recorded applications of n-by-n substitutions, deletions, metatheses and insertions over the full inventory,
/// on words assembled from the rule's own elements, for validation by spec/tv/TV_ScanX.tla (informational)
pub fn record_f1(rules_file: &str, out: &str, nwords: usize) {
    let t = tables::load();
    let seed = env_u64("VERIF_SEED", 1);
    let f = std::io::BufReader::new(std::fs::File::open(rules_file).expect("rules file"));
    let mut asts: Vec<Value> = Vec::new();
    tlc_vectors(f, |x| asts.push(x), |_| {});
    asts.sort_by_key(|x| x["seed"].as_u64().unwrap_or(0));
    let mut w = Writer::new(out);
    let mut sum = Summary::default();
    let al = v::no_aliases();
    for a in &asts {
        let rule = &a["rule"];
        let text = rules::rule_text(rule, &t);
        let mut rng = Rng::new(seed.wrapping_mul(2713).wrapping_add(a["seed"].as_u64().unwrap_or(0)));
        for wt in crate::directed::words(rule, &t, &mut rng, nwords) {
            // the fragment has no length, stress or tone of its own: plain words
            let wt: String = wt.chars().filter(|c| !"ːˈˌ".contains(*c) && !c.is_ascii_digit()).collect();
            let Ok(word) = v::parse_word(&wt, &al) else { continue };
            if word.syllables.is_empty() { continue; }
            let (t2, w2) = (text.clone(), word.clone());
            let rec = crate::util::rec(200_000, false, false, move || {
                let rs = v::parse_rules(&[RuleGroup::from_rules(vec![t2])])?;
                let steps = v::apply_structural(&rs, w2.clone())?;
                Ok::<_, asca::Error>(steps.last().map(|s| s.word.clone()).unwrap_or(w2))
            });
            sum.vectors += 1;
            let (outk, after) = match &rec.result { Ok(Ok(x)) => ("ok", x.clone()), Ok(Err(_)) => ("err", word.clone()), Err(_) => ("panic", word.clone()) };
            if after != word { sum.nontrivial += 1; }
            sum.count(outk, 1);
            w.put(json!({"rule": rule, "w": w_compact(&word, false), "a": w_compact(&after, false), "out": outk}),
                  json!({"rule": text, "word": v::render_word(&word, &al), "after": v::render_word(&after, &al), "outcome": outk,
                         "detail": match &rec.result { Ok(Err(e)) => err_key(e), Err(p) => panic_msg(p), _ => String::new() }}));
        }
    }
    sum.agree = sum.vectors;
    sum.count("records", w.n);
    sum.print();
}
