//! C05 replay: stress / length / tone modifiers on the input side and on the output side of real rules.
use asca::verif as v;
use asca::RuleGroup;
use crate::proj::*;
use crate::util::*;
use serde_json::{json, Value};

pub fn mods_text(m: &Value) -> Vec<String> {
    let mut p = Vec::new();
    for (k, name) in [("L", "long"), ("O", "overlong"), ("S", "stress"), ("C", "sec.stress")] {
        match m[k].as_str().unwrap() { "+" => p.push(format!("+{name}")), "-" => p.push(format!("-{name}")), _ => {} }
    }
    let t = m["T"].as_i64().unwrap();
    if t >= 0 { p.push(format!("tone: {t}")); }
    p
}

pub fn rule_text(vec: &Value) -> String {
    let mods = mods_text(&vec["m"]);
    let kind = vec["kind"].as_str().unwrap();
    let joined = mods.join(", ");
    if vec["side"].as_str().unwrap() == "in" {
        let suffix = if mods.is_empty() { String::new() } else { format!(":[{joined}]") };
        match kind {
            "ipa" => format!("a{suffix} > [+nas]"),
            "grp" => format!("V{suffix} > [+nas]"),
            "mx" => format!("[+syll{}{}] > [+nas]", if mods.is_empty() { "" } else { ", " }, joined),
            _ => format!("%{suffix} > [tone: 77]"),
        }
    } else {
        match kind {
            "ipa" => format!("a > [{joined}]"),
            "grp" => format!("V > [{joined}]"),
            "mx" => format!("[+syll] > [{joined}]"),
            _ => format!("% > [{joined}]"),
        }
    }
}

pub fn run_rule(text: &str, word: &v::Word) -> Result<Result<v::Word, asca::Error>, String> {
    let w = word.clone();
    let t = text.to_string();
    let rec = crate::util::rec(5_000_000, false, false, move || {
        let rules = v::parse_rules(&[RuleGroup::from_rules(vec![t])])?;
        let steps = v::apply_structural(&rules, w.clone())?;
        Ok(steps.last().map(|s| s.word.clone()).unwrap_or(w))
    });
    match rec.result { Ok(r) => Ok(r), Err(p) => Err(panic_msg(&p)) }
}

pub fn replay() {
    let known: Vec<String> = std::env::var("VERIF_KNOWN").unwrap_or_default().split(',').map(|s| s.to_string()).collect();
    let mut sum = Summary::default();
    replay_stdin(|vec| {
        sum.vectors += 1;
        let word = json_word(&vec["w"]);
        let exp = json_word(&vec["exp"]);
        let status = vec["status"].as_str().unwrap();
        let text = rule_text(&vec);
        if exp != word || status != "ok" { sum.nontrivial += 1; }
        let r = run_rule(&text, &word);
        let (agree, obs) = match &r {
            Err(p) => (false, json!({"panic": p})),
            Ok(Err(e)) => (status != "ok", json!({"err": err_json(e)})),
            Ok(Ok(w)) => ((status == "ok" && *w == exp) || (status == "err_or_same" && *w == word), word_json(w)),
        };
        if agree {
            sum.agree += 1;
            if sum.vectors % 997 == 1 { sum.sample(|| json!({"rule": text, "word": v::render_word(&word, &v::no_aliases()), "expected": if status == "ok" { json!(v::render_word(&exp, &v::no_aliases())) } else { json!(status) }})); }
        } else {
            // C05-KF1: output side, segment target already long/overlong, modifier asks for +long / +overlong
            let m = &vec["m"];
            let kf1 = vec["side"] == "out" && vec["kind"] != "syl" && vec["n"].as_i64().unwrap() >= 2
                && (m["L"] == "+" || m["O"] == "+") && r.as_ref().map(|x| x.is_ok()).unwrap_or(false);
            let case = json!({"rule": text, "word": v::render_word(&word, &v::no_aliases()), "expected": if status == "ok" { json!(v::render_word(&exp, &v::no_aliases())) } else { json!(status) },
                              "observed": match &r { Ok(Ok(w)) => json!(v::render_word(w, &v::no_aliases())), _ => obs.clone() }, "vector": {"m": m, "side": vec["side"], "kind": vec["kind"], "posn": vec["posn"], "n": vec["n"]}});
            if kf1 && known.iter().any(|k| k == "C05-KF1") { sum.known("C05-KF1", || case); } else if kf1 { sum.known("C05-KF1", || case); } else { sum.mismatch(case); }
        }
    });
    sum.print();
}
