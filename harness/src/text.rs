//! C01 / C09 on segments: the spec's renderer and reader (spec/Text.tla) against the real ones.
use asca::verif as v;
use crate::proj::*;
use crate::util::*;
use crate::tables;
use serde_json::{json, Value};

fn rendering_text(r: &Value, t: &tables::Tables) -> Option<String> {
    let i = r[0].as_u64().unwrap() as usize;
    if i == 0 { return None; }
    let mut s = t.cards[i - 1].0.clone();
    for d in r[1].as_array().unwrap() { s.push(t.dias[d.as_u64().unwrap() as usize - 1].diacrit); }
    Some(s)
}

pub fn replay() {
    let t = tables::load();
    let known: Vec<String> = std::env::var("VERIF_KNOWN").unwrap_or_default().split(',').map(|s| s.to_string()).collect();
    let mode = std::env::var("VERIF_TEXT_MODE").unwrap_or("C09".into());
    let al = v::no_aliases();
    let mut sum = Summary::default();
    let mut seen = std::collections::HashSet::new();
    replay_stdin(|vec| {
        let seg = json_seg(&vec["seg"]);
        if !seen.insert(seg_arr(&seg)) { sum.count("duplicate_targets", 1); return; }
        sum.vectors += 1;
        let real = seg.get_as_grapheme();
        let det = rendering_text(&vec["det"], &t);
        let choices: Vec<String> = vec["choices"].as_array().unwrap().iter().filter_map(|r| rendering_text(r, &t)).collect();
        let nch = vec["nchoices"].as_u64().unwrap();
        if nch > 0 && vec["det"][1].as_array().map(|a| !a.is_empty()).unwrap_or(false) { sum.nontrivial += 1; }
        let mut problems: Vec<String> = Vec::new();
        let mut kf: Option<&str> = None;
        // binding: the real rendering is the spec's rendering for the order the code loaded, and one of the admissible renderings
        if real != det { problems.push(format!("real rendering {:?}, spec rendering for the loaded order {:?}", real, det)); }
        if let Some(r) = &real { if !choices.contains(r) { problems.push(format!("real rendering {:?} is not among the admissible renderings {:?}", r, choices)); } }
        // the word renderer prints that rendering, and the replacement character for a segment that has none (doc: "ASCA is unable to render a segment in IPA")
        let wtext = v::render_word(&v::make_word(&[(vec![seg], 0, 0)], false), &al);
        let wexp = real.clone().unwrap_or("\u{FFFD}".to_string());
        if wtext != wexp { problems.push(format!("the word renderer prints {:?} for a segment whose rendering is {:?}", wtext, real)); }
        if real.is_none() { sum.count("targets_without_rendering", 1); }
        if mode == "C01" {
            // the property proper: the rendering does not depend on the (unspecified) order of equally good candidates
            // -> on a tree whose order is fixed by construction this is implied by `real == det` in every process; on a tree with a random order it is the statement nchoices <= 1
            if std::env::var("VERIF_ORDER_FIXED").unwrap_or_default() != "1" && nch > 1 { problems.push(format!("{} renderings possible depending on iteration order: {:?}", nch, choices)); }
        } else {
            // C09: reading the rendering back gives the same segment (spec and real)
            if let Some(r) = &real {
                let back = v::parse_word(r, &al);
                let back_seg = back.as_ref().ok().and_then(|w| if w.syllables.len() == 1 && w.syllables[0].segments.len() == 1 { Some(w.syllables[0].segments[0]) } else { None });
                let spec_back_ok = vec["back"][0] == "ok";
                let spec_back = json_seg(&vec["back"][1]);
                if real == det {
                    // the spec's reader must agree with the real reader on the same text
                    match (&back_seg, spec_back_ok) {
                        (Some(b), true) => if *b != spec_back { problems.push(format!("reading {:?} back: real {:?}, spec {:?}", r, seg_arr(b), seg_arr(&spec_back))); },
                        (None, false) => {},
                        (Some(_), false) => problems.push(format!("spec reader rejects {:?}, real reader accepts it", r)),
                        (None, true) => problems.push(format!("real reader rejects {:?} ({}), spec reader accepts it", r, back.as_ref().err().map(err_key).unwrap_or_default())),
                    }
                }
                if back_seg != Some(seg) {
                    problems.push(format!("round trip: {:?} reads back as {:?}", r, back_seg.map(|b| seg_arr(&b))));
                    // C09-KF1: the rendering base+diacritics is, under longest match, the spelling of a DIFFERENT cardinal (e.g. ɣ + lowering = the cardinal ɣ̞)
                    let base_len = vec["det"][0].as_u64().map(|i| if i == 0 { 0 } else { t.cards[i as usize - 1].0.len() }).unwrap_or(0);
                    let collides = t.cards.iter().any(|(g, _)| g.len() > base_len && r.starts_with(g.as_str()));
                    if collides && known.iter().any(|k| k == "C09-KF1") { kf = Some("C09-KF1"); }
                }
            }
        }
        if problems.is_empty() { sum.agree += 1; if sum.vectors % 499 == 0 { sum.sample(|| json!({"segment": seg_arr(&seg), "rendering": real, "admissible": choices})); } }
        else {
            let case = json!({"segment": seg_arr(&seg), "real": real, "spec": det, "admissible": choices, "problems": problems});
            match kf { Some(k) if problems.len() == 1 => sum.known(k, || case), _ => sum.mismatch(case) }
        }
    });
    sum.print();
}
