//! C15: romanisers / deromanisers. (iii) printed form against spec/Alias.tla (replay of GEN_C15);
//! (i) the same rules fire and the same words result with or without romanisers, (ii) a deromaniser makes its
//! string behave as the IPA it stands for - both recorded for TV_Laws (C15Law).
use asca::verif::{self as v, Event};
use asca::RuleGroup;
use crate::proj::*;
use crate::util::*;
use crate::rules;
use crate::tables;
use crate::laws::{gen_word_text, Writer};
use crate::pipeline::{load_corpus, Intern};
use serde_json::{json, Value};

const REPL: [&str; 4] = ["", "Q", "Wx", "ž"];

fn alias_text(a: &Value, t: &tables::Tables) -> String {
    let inp: String = a["inp"].as_array().unwrap().iter().map(|e| rules::elem_text(e, t)).collect::<Vec<_>>().join(" ");
    let out = a["out"].as_u64().unwrap() as usize;
    let rhs = if out == 0 { "*".to_string() } else { format!("{}{}", if a["plus"].as_bool().unwrap() { "+" } else { "" }, REPL[out]) };
    format!("{inp} > {rhs}")
}

pub fn replay() {
    let t = tables::load();
    let al = v::no_aliases();
    let mut sum = Summary::default();
    replay_stdin(|vec| {
        sum.vectors += 1;
        let word = json_word(&vec["w"]);
        let text = v::render_word(&word, &al);
        let from: Vec<String> = vec["aliases"].as_array().unwrap().iter().map(|a| alias_text(a, &t)).collect();
        // expected printed form from the token sequence
        let mut exp = String::new();
        for tok in vec["exp"].as_array().unwrap() {
            match tok[0].as_str().unwrap() {
                "g" => { let g = json_seg(&tok[1]).get_as_grapheme().unwrap_or("\u{FFFD}".into());
                         // a word typed in americanist notation keeps it for the segments no romaniser replaces
                         exp.push_str(&if vec["w"]["am"].as_bool().unwrap_or(false) { g.replace("t͡s", "¢").replace("t͡ɬ", "ƛ").replace("d͡ɮ", "λ").replace("ɬ", "ł").replace("ɲ", "ñ") } else { g }); }
                "t" => exp.push_str(&tok[1].as_u64().unwrap().to_string()),
                "r" | "br" => exp.push_str(REPL[tok[1].as_u64().unwrap() as usize]),
                _ => exp.push_str(match tok[1].as_str().unwrap() { "P" => "ˈ", "S" => "ˌ", _ => "." }),
            }
        }
        if exp != text { sum.nontrivial += 1; }
        let (f2, t2) = (from.clone(), text.clone());
        let rec = crate::util::rec(200_000, false, false, move || asca::run(&[], &[t2], &[], &f2));
        match rec.result {
            Ok(Ok(out)) if out.len() == 1 && out[0] == exp => { sum.agree += 1; if sum.vectors % 4999 == 0 { sum.sample(|| json!({"romanisers": from, "word": text, "printed": exp})); } }
            Ok(Ok(out)) => sum.mismatch(json!({"romanisers": from, "word": text, "expected": exp, "observed": out})),
            Ok(Err(e)) => sum.mismatch(json!({"romanisers": from, "word": text, "expected": exp, "observed": {"err": err_json(&e)}})),
            Err(p) => sum.mismatch(json!({"romanisers": from, "word": text, "expected": exp, "observed": {"panic": panic_msg(&p)}})),
        }
    });
    sum.print();
}

fn apply_ids(evs: &[Event], it: &mut Intern) -> Vec<i64> {
    evs.iter().filter_map(|e| match e { Event::RunApply { before } => Some(it.word(before)), Event::RunApplied { after } => Some(it.word(after)), Event::RunWord { word } => Some(it.word(word)), _ => None }).collect()
}

/// (i) and (ii): one record per (rules, word, alias set)
pub fn record(out: &str, n: usize) {
    let c = load_corpus();
    let seed = env_u64("VERIF_SEED", 1);
    let mut rng = Rng::new(seed ^ 0x15);
    let mut w = Writer::new(out);
    let mut sum = Summary::default();
    const ROMS: [&str; 12] = ["a > A", "ta > Ta", "V:[+long] > +\u{304}", "[+cons, +son, -voice] > +h", "C:[+voi] > +\u{30C}", "$ > *", "[-anterior] > X", "s, z > S, Z", "V:[+str] > +\u{301}", "[+nasal] > +\u{328}", "k > c", "$ > ·"];
    const DEROMS: [(&str, &str); 8] = [("sh", "ʃ"), ("ng", "ŋ"), ("A", "a:[+long]"), ("th", "θ"), ("ch", "t͡ʃ"), ("E", "e:[+str]"), ("ny", "ɲ"), ("x", "ks")];
    for _ in 0..n {
        let nr = 1 + rng.below(3);
        let rules: Vec<String> = (0..nr).map(|_| if !c.gen_rules.is_empty() && rng.chance(1, 2) { rng.pick(&c.gen_rules).clone() } else { rng.pick(&c.test_rules).clone() }).collect();
        let groups = vec![RuleGroup::from_rules(rules.clone())];
        if rng.chance(1, 2) {
            // (i) romanisers do not change what happens
            let wt = if rng.chance(1, 2) { gen_word_text(&mut rng, true) } else { rng.pick(&c.test_words).clone() };
            let from: Vec<String> = (0..1 + rng.below(3)).map(|_| rng.pick(&ROMS[..]).to_string()).collect();
            let mut it = Intern::new();
            let (g1, w1) = (groups.clone(), wt.clone());
            let ra = crate::util::rec(30_000, true, false, move || asca::run(&g1, &[w1], &[], &[]));
            let (g2, w2, f2) = (groups.clone(), wt.clone(), from.clone());
            let rb = crate::util::rec(30_000, true, false, move || asca::run(&g2, &[w2], &[], &f2));
            let (ea, eb) = (apply_ids(&ra.events, &mut it), apply_ids(&rb.events, &mut it));
            let oka = matches!(ra.result, Ok(Ok(_))); let okb = matches!(rb.result, Ok(Ok(_)));
            let pk = |p: &Box<dyn std::any::Any + Send>| if p.downcast_ref::<v::BudgetExhausted>().is_some() { "BUDGET".to_string() } else { format!("PANIC {}", panic_text(p)) };
            let keya = match &ra.result { Ok(Ok(_)) => "ok".to_string(), Ok(Err(e)) => err_key(e), Err(p) => pk(p) };
            let keyb = match &rb.result { Ok(Ok(_)) => "ok".to_string(), Ok(Err(e)) => err_key(e), Err(p) => pk(p) };
            if keya == "BUDGET" || keyb == "BUDGET" { sum.count("step_budget_exhausted (C02's domain)", 1); continue; }
            sum.vectors += 1; if ea.len() > 1 { sum.nontrivial += 1; }
            w.put(json!({"kind": "rom", "a": ea, "b": eb, "same": keya == keyb || (oka && !okb && keyb.starts_with("Alias"))}),
                  json!({"kind": "rom", "rules": rules, "word": wt, "romanisers": from, "without": keya, "with": keyb, "out_without": format!("{:?}", ra.result.as_ref().ok().and_then(|r| r.as_ref().ok())), "out_with": format!("{:?}", rb.result.as_ref().ok().and_then(|r| r.as_ref().ok()))}));
        } else {
            // (ii) a deromaniser `s > X` makes input text s behave exactly as if X had been typed
            let k = 1 + rng.below(3);
            let ds: Vec<(&str, &str)> = (0..k).map(|_| *rng.pick(&DEROMS[..])).collect();
            let into: Vec<String> = ds.iter().map(|(s, x)| format!("{s} > {x}")).collect();
            // a word in plain IPA that uses the X's, and its encoding with the strings
            let mut plain = String::new(); let mut enc = String::new();
            for i in 0..(2 + rng.below(4)) {
                if i > 0 && rng.chance(1, 3) { plain.push('.'); enc.push('.'); }
                if rng.chance(1, 2) { let (s, x) = *rng.pick(&ds); 
                    // modifiers are written in the rule-style form a:[+long]; the plain spelling of that is aː / ˈe
                    let px = match x { "a:[+long]" => "aː", "e:[+str]" => "e", other => other };
                    if x == "e:[+str]" { continue; }
                    plain.push_str(px); enc.push_str(s);
                } else { let g = ["a", "i", "o", "t", "m", "l"][rng.below(6)]; plain.push_str(g); enc.push_str(g); }
            }
            if plain.is_empty() { continue; }
            let (g1, w1) = (groups.clone(), plain.clone());
            let ra = crate::util::rec(30_000, false, false, move || asca::run(&g1, &[w1], &[], &[]));
            let (g2, w2, i2) = (groups.clone(), enc.clone(), into.clone());
            let rb = crate::util::rec(30_000, false, false, move || asca::run(&g2, &[w2], &i2, &[]));
            let key = |r: &std::thread::Result<Result<Vec<String>, asca::Error>>| match r { Ok(Ok(o)) => format!("ok {:?}", o), Ok(Err(e)) => err_key(e), Err(p) => if p.downcast_ref::<v::BudgetExhausted>().is_some() { "BUDGET".to_string() } else { format!("PANIC {}", panic_text(p)) } };
            let (ka, kb) = (key(&ra.result), key(&rb.result));
            if ka == "BUDGET" || kb == "BUDGET" { sum.count("step_budget_exhausted (C02's domain)", 1); continue; }
            sum.vectors += 1; if plain != enc { sum.nontrivial += 1; }
            w.put(json!({"kind": "derom", "a": [], "b": [], "same": ka == kb}), json!({"kind": "derom", "rules": rules, "plain": plain, "encoded": enc, "deromanisers": into, "plain_result": ka, "encoded_result": kb}));
        }
    }
    sum.agree = sum.vectors;
    sum.count("records", w.n);
    sum.print();
}
