//! C12 replay: (shorthand, expansion) pairs produced by Grammar!GenShorthand; the real interpreter must give the
//! same structural result for both on every word.
use asca::verif as v;
use crate::proj::*;
use crate::util::*;
use crate::rules;
use crate::tables;
use crate::laws::{gen_word_text, run_rules};
use serde_json::{json, Value};

fn short_texts(vec: &Value, t: &tables::Tables) -> Vec<String> {
    match vec["kind"].as_str().unwrap() {
        "condensed" => {
            let p = &vec["parts"];
            let join = |x: &Value| x.as_array().unwrap().iter().map(|es| rules::elems_text(es, t)).collect::<Vec<_>>().join(", ");
            let mut s = format!("{} > {}", join(&p["inps"]), join(&p["outs"]));
            let ctxs = p["ctxs"].as_array().unwrap();
            if !ctxs.is_empty() { s += &format!(" / {}", ctxs.iter().map(|e| rules::env_text(e, t)).collect::<Vec<_>>().join(", ")); }
            if let Some(excs) = p["excs"].as_array() { if !excs.is_empty() { s += &format!(" | {}", excs.iter().map(|e| rules::env_text(e, t)).collect::<Vec<_>>().join(", ")); } }
            vec![s]
        }
        "special-env" => { let p = &vec["parts"]; vec![format!("{} > {} / _,{}", rules::elems_text(&p["inp"], t), rules::elems_text(&p["out"], t), rules::elems_text(&p["x"], t))] }
        _ => vec["short"].as_array().unwrap().iter().map(|r| rules::rule_text(r, t)).collect(),
    }
}

pub fn replay() {
    let t = tables::load();
    let seed = env_u64("VERIF_SEED", 1);
    let nwords = env_u64("VERIF_NWORDS", 8) as usize;
    let known: Vec<String> = std::env::var("VERIF_KNOWN").unwrap_or_default().split(',').map(|s| s.to_string()).collect();
    let al = v::no_aliases();
    let mut sum = Summary::default();
    replay_stdin(|vec| {
        let kind = vec["kind"].as_str().unwrap().to_string();
        let short = short_texts(&vec, &t);
        let long: Vec<String> = vec["long"].as_array().unwrap().iter().map(|r| rules::rule_text(r, &t)).collect();
        let mut rng = Rng::new(seed.wrapping_mul(77).wrapping_add(vec["seed"].as_u64().unwrap_or(0)));
        // the group-letter stratum is run on a word around every cardinal of the inventory (each group is a class of the WHOLE inventory)
        let sweep_words: Vec<String> = if kind == "group-sweep" { t.cards.iter().flat_map(|(g, _)| [format!("a{g}"), format!("{g}a")]).collect() } else { vec![] };
        let nw = if kind == "group-sweep" { sweep_words.len() } else { nwords };
        // half of the words are assembled from segments matching the elements of (one of) the expanded rules
        let directed: Vec<String> = if kind == "group-sweep" { vec![] } else { vec["long"].as_array().map(|l| l.iter().flat_map(|r| crate::directed::words(r, &t, &mut rng, 2)).collect()).unwrap_or_default() };
        for wi in 0..nw {
            let wt = if kind == "group-sweep" { sweep_words[wi].clone() } else if wi % 2 == 1 && wi / 2 < directed.len() { sum.count("directed_words", 1); directed[wi / 2].clone() } else { gen_word_text(&mut rng, true) };
            let Ok(word) = v::parse_word(&wt, &al) else { continue };
            sum.vectors += 1; sum.count(&kind, 1);
            let a = run_rules(&short, &word, 20_000, false);
            let b = run_rules(&long, &word, 20_000, false);
            if a.out == "budget" || b.out == "budget" { sum.count("step_budget_exhausted (C02's domain)", 1); continue; }
            let fa = a.steps.last().map(|s| s.word.clone());
            let fb = b.steps.last().map(|s| s.word.clone());
            let same = match (a.out, b.out) { ("ok", "ok") => fa == fb, ("err", "err") => true, ("panic", "panic") => true, _ => false };
            if fa.as_ref().map(|w| *w != word).unwrap_or(false) { sum.nontrivial += 1; }
            if same { sum.agree += 1; if sum.vectors % 2003 == 0 { sum.sample(|| json!({"kind": kind, "shorthand": short, "expansion": long, "word": wt, "result": fa.as_ref().map(|w| v::render_word(w, &al))})); } }
            else {
                let has_long = word.syllables.iter().any(|s| (1..s.segments.len()).any(|i| s.segments[i] == s.segments[i - 1]));
                let case = json!({"kind": kind, "shorthand": short, "expansion": long, "word": wt,
                                  "shorthand_result": if a.out == "ok" { json!(fa.as_ref().map(|w| v::render_word(w, &al))) } else { json!(format!("{} {}", a.out, a.detail)) },
                                  "expansion_result": if b.out == "ok" { json!(fb.as_ref().map(|w| v::render_word(w, &al))) } else { json!(format!("{} {}", b.out, b.detail)) }});
                if kind == "metathesis" && has_long && a.out == "ok" && b.out == "ok" && known.iter().any(|k| k == "C12-KF1") { sum.known("C12-KF1", || case); } else { sum.mismatch(case); }
            }
        }
    });
    sum.print();
}
