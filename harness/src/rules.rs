//! Printing rule ASTs (the JSON form of spec/RuleAst.tla) as rule text.
use crate::proj::*;
use crate::tables::Tables;
use serde_json::Value;

pub const GROUP_LETTERS: [&str; 9] = ["C", "O", "S", "P", "F", "L", "N", "G", "V"];
pub const NODE_KEY_NAMES: [(&str, &str); 8] = [("rut", "root"), ("man", "manner"), ("lar", "laryngeal"), ("place", "place"), ("lab", "labial"), ("cor", "coronal"), ("dor", "dorsal"), ("phr", "pharyngeal")];

pub fn mod_text(m: &Value) -> String {
    let kind = m[0].as_str().unwrap();
    let sign = match &m[2] { Value::Bool(true) => "+".to_string(), Value::Bool(false) => "-".to_string(), Value::String(s) => s.clone(), _ => "?".into() };
    if kind == "f" {
        format!("{}{}", sign, FEATS[m[1].as_u64().unwrap() as usize - 1].2)
    } else if kind == "n" {
        let key = m[1].as_str().unwrap();
        format!("{}{}", sign, NODE_KEY_NAMES.iter().find(|(k, _)| *k == key).unwrap().1)
    } else if kind == "s" {
        // suprasegmental: <<"s", name, sign>> ; tone: <<"t", value>>
        format!("{}{}", sign, m[1].as_str().unwrap())
    } else {
        format!("tone: {}", m[1])
    }
}

pub fn mods_text(fm: &Value) -> String {
    fm.as_array().map(|a| a.iter().map(mod_text).collect::<Vec<_>>().join(", ")).unwrap_or_default()
}

pub fn elem_text(e: &Value, t: &Tables) -> String {
    let fm = mods_text(&e["fm"]);
    match e["k"].as_str().unwrap() {
        "ipa" => { let g = &t.cards[e["id"].as_u64().unwrap() as usize - 1].0; if fm.is_empty() { g.clone() } else { format!("{g}:[{fm}]") } }
        "mx" => format!("[{fm}]"),
        "grp" => { let g = GROUP_LETTERS[e["id"].as_u64().unwrap() as usize - 1]; if fm.is_empty() { g.to_string() } else { format!("{g}:[{fm}]") } }
        "set" => format!("{{{}}}", e["items"].as_array().unwrap().iter().map(|x| elem_text(x, t)).collect::<Vec<_>>().join(", ")),
        "wb" => "#".into(),
        "sb" => "$".into(),
        "struct" => { let inner = e["items"].as_array().unwrap().iter().map(|x| elem_text(x, t)).collect::<Vec<_>>().join(" "); if fm.is_empty() { format!("<{inner}>") } else { format!("<{inner}>:[{fm}]") } }
        "opt" => {
            let inner = e["items"].as_array().unwrap().iter().map(|x| elem_text(x, t)).collect::<Vec<_>>().join(" ");
            let (lo, hi) = (e["id"].as_u64().unwrap(), e["hi"].as_u64().unwrap());
            if lo == 0 && hi == 1 { format!("({inner})") } else if lo == 0 { format!("({inner}, {hi})") } else { format!("({inner}, {lo}:{hi})") }
        }
        "syl" => if fm.is_empty() { "%".into() } else { format!("%:[{fm}]") },
        "empty" => "*".into(),
        "met" => "&".into(),
        "ell" => "...".into(),
        "var" => format!("{}", e["id"]),
        k => panic!("unknown element kind {k}"),
    }
}

pub fn elems_text(es: &Value, t: &Tables) -> String {
    es.as_array().unwrap().iter().map(|e| {
        let mut s = elem_text(e, t);
        if let Some(v) = e.get("var").and_then(|v| v.as_u64()) { if v > 0 && e["k"] != "var" { s = format!("{s}={v}"); } }
        s
    }).collect::<Vec<_>>().join(" ")
}

pub fn env_text(env: &Value, t: &Tables) -> String {
    format!("{}_{}", elems_text(&env["b"], t), elems_text(&env["a"], t)).trim().to_string()
}

pub fn envs_text(envs: &Value, t: &Tables) -> String {
    let a = envs.as_array().unwrap();
    if a.len() == 1 { env_text(&a[0], t) } else { format!(":{{ {} }}:", a.iter().map(|e| env_text(e, t)).collect::<Vec<_>>().join(", ")) }
}

pub fn rule_text(r: &Value, t: &Tables) -> String {
    let mut s = format!("{} > {}", elems_text(&r["inp"], t), elems_text(&r["out"], t));
    if r["ctx"].as_array().map(|a| !a.is_empty()).unwrap_or(false) { s += &format!(" / {}", envs_text(&r["ctx"], t)); }
    if r["exc"].as_array().map(|a| !a.is_empty()).unwrap_or(false) { s += &format!(" | {}", envs_text(&r["exc"], t)); }
    s
}
