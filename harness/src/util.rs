use serde_json::Value;
use std::io::BufRead;

/// splitmix64 / xorshift: a tiny deterministic generator so that no extra crate is needed
#[derive(Clone)]
pub struct Rng(pub u64);
impl Rng {
    pub fn new(seed: u64) -> Self { let mut r = Rng(seed ^ 0x9E3779B97F4A7C15); r.next(); r }
    pub fn next(&mut self) -> u64 {
        self.0 = self.0.wrapping_add(0x9E3779B97F4A7C15);
        let mut z = self.0;
        z = (z ^ (z >> 30)).wrapping_mul(0xBF58476D1CE4E5B9);
        z = (z ^ (z >> 27)).wrapping_mul(0x94D049BB133111EB);
        z ^ (z >> 31)
    }
    pub fn below(&mut self, n: usize) -> usize { if n == 0 { 0 } else { (self.next() % n as u64) as usize } }
    pub fn chance(&mut self, num: usize, den: usize) -> bool { self.below(den) < num }
    pub fn pick<'a, T>(&mut self, v: &'a [T]) -> &'a T { &v[self.below(v.len())] }
}

/// Iterates the JSON vectors TLC printed with `PrintT(ToJson(..))`: each such line is a JSON string literal.
/// Every other line (TLC's banner, progress, statistics) is handed to `other`.
pub fn tlc_vectors<R: BufRead, F: FnMut(Value), G: FnMut(&str)>(r: R, mut f: F, mut other: G) {
    for line in r.lines() {
        let Ok(line) = line else { continue };
        if line.starts_with("\"{") || line.starts_with("\"[") {
            match serde_json::from_str::<String>(&line) {
                Ok(inner) => match serde_json::from_str::<Value>(&inner) {
                    Ok(v) => f(v),
                    Err(_) => other(&line),
                },
                Err(_) => other(&line),
            }
        } else if line.starts_with('{') || line.starts_with('[') {
            match serde_json::from_str::<Value>(&line) { Ok(v) => f(v), Err(_) => other(&line) }
        } else {
            other(&line)
        }
    }
}

pub fn env_u64(name: &str, default: u64) -> u64 {
    std::env::var(name).ok().and_then(|s| s.parse().ok()).unwrap_or(default)
}

/// Accumulates what a replay/record run saw; printed as one `SUMMARY {json}` line at the end.
#[derive(Default)]
pub struct Summary {
    pub vectors: u64,
    pub nontrivial: u64,
    pub agree: u64,
    pub mismatches: Vec<Value>,     // unclassified disagreements (violations)
    pub known: std::collections::BTreeMap<String, (u64, Value)>,   // finding id -> (count, first example)
    pub samples: Vec<Value>,
    pub extra: serde_json::Map<String, Value>,
}
impl Summary {
    pub fn sample(&mut self, v: impl FnOnce() -> Value) { if self.samples.len() < 6 { self.samples.push(v()); } }
    pub fn mismatch(&mut self, v: Value) { if self.mismatches.len() < 50 { self.mismatches.push(v); } else { let n = self.extra.entry("mismatches_dropped").or_insert(Value::from(0u64)); *n = Value::from(n.as_u64().unwrap() + 1); } }
    pub fn known(&mut self, id: &str, example: impl FnOnce() -> Value) {
        let e = self.known.entry(id.to_string()).or_insert_with(|| (0, Value::Null));
        if e.0 == 0 { e.1 = example(); }
        e.0 += 1;
    }
    pub fn count(&mut self, key: &str, by: u64) { let n = self.extra.entry(key).or_insert(Value::from(0u64)); *n = Value::from(n.as_u64().unwrap_or(0) + by); }
    pub fn print(&self) {
        let known: serde_json::Map<String, Value> = self.known.iter().map(|(k, (n, ex))| (k.clone(), serde_json::json!({"count": n, "example": ex}))).collect();
        let dropped = self.extra.get("mismatches_dropped").and_then(|x| x.as_u64()).unwrap_or(0);
        let s = serde_json::json!({
            "vectors": self.vectors, "nontrivial": self.nontrivial, "agree": self.agree,
            "n_mismatches": self.mismatches.len() as u64 + dropped, "mismatches": self.mismatches,
            "known": known, "samples": self.samples, "extra": self.extra,
        });
        println!("SUMMARY {}", s);
    }
}

/// the standard replay driver: vectors from stdin to `f`, TLC's own lines echoed with a `TLC| ` prefix
pub fn replay_stdin<F: FnMut(Value)>(f: F) {
    let stdin = std::io::stdin();
    tlc_vectors(stdin.lock(), f, |l| println!("TLC| {}", l));
}

/// `asca::verif::record` for closures that borrow library values: whether those values are unwind-safe is none of the harness's business
/// (a change of a library type - say a cache cell inside `Rule` - must not stop the harness from compiling)
pub fn rec<T, F: FnOnce() -> T>(budget: u64, events: bool, ticks: bool, f: F) -> asca::verif::Recorded<T> {
    asca::verif::record(budget, events, ticks, std::panic::AssertUnwindSafe(f))
}
