//! Recorders for C09 (word-level round trip) and C01 (same input, same output across calls, positions and processes).
use asca::verif as v;
use asca::{RuleGroup, Segment};
use crate::proj::*;
use crate::util::*;
use crate::laws::{w_compact, Writer};
use crate::pipeline::{gen_item, load_corpus};
use crate::tables;
use serde_json::{json, Value};
use std::io::Write;

fn fnv(s: &str) -> i64 {
    let mut h: u64 = 0xcbf29ce484222325;
    for b in s.as_bytes() { h ^= *b as u64; h = h.wrapping_mul(0x100000001b3); }
    (h % 2_000_000_011) as i64
}

/// a random segment of the C09 domain: base + up to two applicable diacritics, sometimes one feature flipped; must be renderable
fn gen_seg(t: &tables::Tables, rng: &mut Rng) -> Segment {
    for _ in 0..50 {
        let mut s = t.cards[rng.below(t.cards.len())].1;
        let nd = rng.below(3);
        for _ in 0..nd {
            let d = &t.dias[rng.below(t.dias.len())];
            let ok = d.prereqs.iter().all(|(is_node, i, pos)| mod_matches(&s, *is_node, *i, *pos));
            if ok { apply_payload(&mut s, &d.payload); }
        }
        if rng.chance(1, 4) {
            let (ni, mask, _) = FEATS[rng.below(26)];
            let node = NODES7[ni];
            match s.get_node(node) { Some(n) => s.set_feat(node, mask, n & mask == 0), None => s.set_feat(node, mask, true) }
        }
        // mostly segments that can be spelled; now and then one that cannot (its word must then carry the replacement character)
        if s.get_as_grapheme().is_some() || rng.chance(1, 3) { return s; }
    }
    t.cards[rng.below(t.cards.len())].1
}

const DIA_NODES: [Option<asca::NodeKind>; 8] = [Some(asca::NodeKind::Root), Some(asca::NodeKind::Manner), Some(asca::NodeKind::Laryngeal), None, Some(asca::NodeKind::Labial), Some(asca::NodeKind::Coronal), Some(asca::NodeKind::Dorsal), Some(asca::NodeKind::Pharyngeal)];

fn mod_matches(s: &Segment, is_node: bool, i: usize, pos: bool) -> bool {
    if is_node {
        match DIA_NODES[i] { None => s.is_place_some() == pos, Some(n) => s.get_node(n).is_some() == pos }
    } else {
        let (ni, mask, _) = FEATS[i];
        s.feat_match(NODES7[ni], mask, pos)
    }
}
fn apply_payload(s: &mut Segment, pay: &[(bool, usize, bool)]) {
    for (is_node, i, pos) in pay { if *is_node { if let Some(n) = DIA_NODES[*i] { s.set_node(n, if *pos { Some(0) } else { None }); } } }
    for (is_node, i, pos) in pay { if !*is_node { let (ni, mask, _) = FEATS[*i]; s.set_feat(NODES7[ni], mask, *pos); } }
}

pub fn record_c09(out: &str, n: usize, rules_files: &[String]) {
    let t = tables::load();
    let seed = env_u64("VERIF_SEED", 1);
    let mut rng = Rng::new(seed ^ 0x0909);
    let mut w = Writer::new(out);
    let mut sum = Summary::default();
    let al = v::no_aliases();
    let mut judge = |word: &v::Word, origin: Value, w: &mut Writer, sum: &mut Summary| {
        let text = v::render_word(word, &al);
        let ok = !text.contains('\u{FFFD}');
        let back = v::parse_word(&text, &al);
        let fixed = match asca::run(&[], &[text.clone()], &[], &[]) { Ok(o) => o.len() == 1 && o[0] == text, Err(_) => false };
        // signature of C09-KF1, evaluated on the vector: some segment's rendering begins with a longer cardinal grapheme than the one it was built from
        let collides = kf1_collides(word, &t);
        let joins = kf2_joins(word, &t);
        sum.vectors += 1; if ok { sum.nontrivial += 1; }
        let b = match &back { Ok(bw) => w_compact(bw, false), Err(e) => json!({"err": err_key(e)}) };
        w.put(json!({"ok": ok, "w": w_compact(word, false), "b": b, "fix": fixed}),
              json!({"text": text, "origin": origin, "back": match &back { Ok(bw) => v::render_word(bw, &al), Err(e) => err_key(e) }, "kf": if collides { "C09-KF1" } else if joins { "C09-KF2" } else { "" }}));
        if sum.samples.len() < 5 { sum.sample(|| json!({"text": text, "renderable": ok})); }
    };
    for _ in 0..n {
        let nsyl = 1 + rng.below(3);
        let mut sylls = Vec::new();
        for _ in 0..nsyl {
            let nseg = 1 + rng.below(3);
            let mut segs: Vec<Segment> = Vec::new();
            for _ in 0..nseg {
                let s = gen_seg(&t, &mut rng);
                let len = if rng.chance(1, 6) { 2 + rng.below(2) } else { 1 };
                for _ in 0..len { segs.push(s); }
            }
            let tone = if rng.chance(1, 4) { [5u16, 51, 214, 1234, 3][rng.below(5)] } else { 0 };
            sylls.push((segs, rng.below(3) as u8, tone));
        }
        let word = v::make_word(&sylls, false);
        judge(&word, json!("assembled"), &mut w, &mut sum);
    }
    // "the output of any run": words that rules of the generated grammar produce (whatever they write - features, length, stress, tone, boundaries - must survive the text)
    for rf in rules_files {
        let asts = crate::laws::read_asts(rf);
        let mut seen = std::collections::HashSet::new();
        for a in &asts {
            let text = crate::rules::rule_text(&a["rule"], &t);
            let mut r2 = Rng::new(seed.wrapping_mul(977).wrapping_add(a["seed"].as_u64().unwrap_or(0)));
            for _ in 0..3 {
                let wt = crate::laws::gen_word_text(&mut r2, true);
                let Ok(word) = v::parse_word(&wt, &al) else { continue };
                let o = crate::laws::run_rules(&[text.clone()], &word, 20_000, false);
                if o.out != "ok" { sum.count("rule_outcome_not_ok (C02's domain when it is no error value)", 1); continue; }
                let after = o.steps.last().map(|s| s.word.clone()).unwrap_or(word.clone());
                if after == word || after.syllables.is_empty() { continue; }
                if !seen.insert(w_compact(&after, false).to_string()) { continue; }
                sum.count("rule_outputs", 1);
                judge(&after, json!({"rule": text, "word": wt}), &mut w, &mut sum);
            }
        }
    }
    sum.agree = sum.vectors;
    sum.count("records", w.n);
    sum.print();
}

/// one process's observations: every result together with a key that identifies its input, nothing else
pub fn record_c01(out: &str, proc_id: usize, nitems: usize) {
    let t = tables::load();
    let c = load_corpus();
    let seed = env_u64("VERIF_SEED", 1);
    let mut rng = Rng::new(seed ^ 0x0101);           // the same workload in every process
    let mut f = std::io::BufWriter::new(std::fs::File::create(out).unwrap());
    let mut sum = Summary::default();
    let mut ncall = 0u64;
    let mut put = |f: &mut std::io::BufWriter<std::fs::File>, key: String, pos: usize, n: u64, res: String| {
        writeln!(f, "{}", json!({"key": fnv(&key), "p": proc_id, "n": n, "pos": pos, "r": fnv(&res)})).unwrap();
    };
    let plus = v::parse_aliases(&[], &["[] > +Q".to_string()]).expect("plus alias");
    // (1) the renderer on every base and base + one diacritic target (this is where the per-process map order used to matter)
    for (bi, (_, base)) in t.cards.iter().enumerate() {
        for di in 0..=t.dias.len() {
            let mut s = *base;
            if di > 0 { let d = &t.dias[di - 1]; if !d.prereqs.iter().all(|(n, i, p)| mod_matches(&s, *n, *i, *p)) { continue; } apply_payload(&mut s, &d.payload); }
            for rep in 0..2 { ncall += 1; sum.vectors += 1; put(&mut f, format!("render {:?}", seg_arr(&s)), bi, ncall + rep, s.get_as_grapheme().unwrap_or("<none>".into())); }
            // the same segment through a `+` romaniser (the nearest-grapheme path of the alias renderer)
            ncall += 1; sum.vectors += 1;
            put(&mut f, format!("render+ {:?}", seg_arr(&s)), bi, ncall, v::render_word(&v::make_word(&[(vec![s], 0, 0)], false), &plus));
        }
    }
    // (2) run / trace on rule lists x word lists: the list, the list again, a permutation, singletons
    for _ in 0..nitems {
        let item = gen_item(&c, &mut rng);
        let gkey = format!("{:?}|{:?}", item.groups.iter().map(|g| (g.name.clone(), g.rule.clone())).collect::<Vec<_>>(), item.into);
        const FROMS: [&[&str]; 4] = [&[], &["[+cons, +son, -voice] > +h", "$ > *"], &["V:[+long] > +\u{304}", "C:[-voi] > +\u{325}"], &["[+cons] > +x"]];
        let from: Vec<String> = FROMS[rng.below(4)].iter().map(|s| s.to_string()).collect();
        let gkey = format!("{gkey}|{:?}", from);
        let run = |lines: &[String]| -> Result<Vec<String>, String> {
            let (g, l, i, fr) = (item.groups.clone(), lines.to_vec(), item.into.clone(), from.clone());
            match crate::util::rec(60_000, false, false, move || asca::run(&g, &l, &i, &fr)).result { Ok(Ok(o)) => Ok(o), Ok(Err(e)) => Err(err_key(&e)), Err(p) => Err(format!("PANIC {}", panic_text(&p))) }
        };
        let singles: Vec<Result<Vec<String>, String>> = item.lines.iter().map(|l| run(&[l.clone()])).collect();
        let all_ok = singles.iter().all(|s| s.is_ok());
        for (pos, (l, s)) in item.lines.iter().zip(&singles).enumerate() {
            ncall += 1; sum.vectors += 1;
            put(&mut f, format!("run {gkey} {l}"), pos, ncall, match s { Ok(o) => o[0].clone(), Err(e) => format!("ERR {e}") });
        }
        if all_ok {
            let mut perm: Vec<usize> = (0..item.lines.len()).collect();
            for i in (1..perm.len()).rev() { let j = rng.below(i + 1); perm.swap(i, j); }
            // rules that bind alphas or variables keep tables whose internal order differs from call to call: the same call many times over
            let binds = item.groups.iter().any(|g| g.rule.iter().any(|r| r.contains('=') || r.chars().zip(r.chars().skip(1)).any(|(a, b)| (a.is_ascii_uppercase() || ('α'..='ω').contains(&a)) && b.is_ascii_lowercase())));
            let ident: Vec<usize> = (0..item.lines.len()).collect();
            let mut orders = vec![ident.clone(), ident.clone(), perm];
            if binds { for _ in 0..6 { orders.push(ident.clone()); } sum.count("repeated_calls_on_binding_rules", 6); }
            for order in orders {
                ncall += 1;
                let lines: Vec<String> = order.iter().map(|i| item.lines[*i].clone()).collect();
                match run(&lines) {
                    Ok(o) => for (pos, (i, r)) in order.iter().zip(o).enumerate() { sum.vectors += 1; put(&mut f, format!("run {gkey} {}", item.lines[*i]), pos, ncall, r); },
                    Err(e) => { sum.vectors += 1; put(&mut f, format!("run {gkey} {}", item.lines[order[0]]), 0, ncall, format!("ERR-LIST {e}")); }
                }
            }
            // ... and "in which order the words are supplied": every ordered pair of the item's single-word lines (the same key as the word alone)
            if binds {
                let singles_only: Vec<&String> = item.lines.iter().filter(|l| !l.contains(' ')).take(5).collect();
                for a in &singles_only { for b in &singles_only {
                    if a == b { continue; }
                    ncall += 1;
                    if let Ok(o) = run(&[(*a).clone(), (*b).clone()]) {
                        sum.vectors += 2; sum.count("ordered_pairs", 1);
                        put(&mut f, format!("run {gkey} {a}"), 0, ncall, o[0].clone());
                        put(&mut f, format!("run {gkey} {b}"), 1, ncall, o[1].clone());
                    }
                } }
            }
        }
        for (pos, l) in item.lines.iter().enumerate() {
            ncall += 1; sum.vectors += 1;
            let (g, l2, i) = (item.groups.clone(), l.clone(), item.into.clone());
            let r = match crate::util::rec(60_000, false, false, move || asca::get_trace_string(&g, l2, &i)).result { Ok(Ok(o)) => o.join("\n"), Ok(Err(e)) => format!("ERR {}", err_key(&e)), Err(p) => format!("PANIC {}", panic_text(&p)) };
            put(&mut f, format!("trace {gkey} {l}"), pos, ncall, r);
        }
    }
    sum.agree = sum.vectors; sum.nontrivial = sum.vectors;
    sum.print();
}


/// signature of C09-KF1: the longest cardinal grapheme the parser will take from some segment's rendering is itself "shorter cardinal + diacritic", and the segment is not that cardinal
pub fn kf1_collides(word: &v::Word, t: &tables::Tables) -> bool {
    word.syllables.iter().flat_map(|s| s.segments.iter()).any(|s| {
        let r = s.get_as_grapheme().unwrap_or_default();
        let lp = t.cards.iter().filter(|(g, _)| r.starts_with(g.as_str())).max_by_key(|(g, _)| g.len());
        match lp { Some((g, c)) => c != s && g.chars().last().map(|ch| t.dias.iter().any(|d| d.diacrit == ch)).unwrap_or(false) && r.len() >= g.len(), None => false }
    })
}

/// signature of C09-KF2: two adjacent segments of a syllable whose renderings join into a longer cardinal grapheme than the first one's own
pub fn kf2_joins(word: &v::Word, t: &tables::Tables) -> bool {
    word.syllables.iter().any(|sy| (1..sy.segments.len()).any(|i| {
        let (x, y) = (sy.segments[i - 1], sy.segments[i]);
        if x == y { return false; }
        let (rx, ry) = (x.get_as_grapheme().unwrap_or_default(), y.get_as_grapheme().unwrap_or_default());
        let joined = format!("{rx}{ry}");
        let lp = |r: &str| t.cards.iter().filter(|(g, _)| r.starts_with(g.as_str())).map(|(g, _)| g.len()).max().unwrap_or(0);
        lp(&joined) > lp(&rx)
    }))
}
