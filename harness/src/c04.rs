//! C04 replay: every vector printed by GEN_C04 is run through the real rule pipeline on a one-segment word.
use asca::verif as v;
use asca::RuleGroup;
use crate::proj::*;
use crate::util::*;
use serde_json::{json, Value};

pub fn rule_text(vec: &Value) -> String {
    let shape = vec["shape"].as_str().unwrap();
    let kind = vec["kind"].as_str().unwrap();
    let x = vec["x"].as_u64().unwrap() as usize;
    let sign = if vec["pos"].as_bool().unwrap() { "+" } else { "-" };
    let name = if kind == "f" { FEATS[x - 1].2 } else { ["labial", "coronal", "dorsal", "pharyngeal", "place"][x - 1] };
    match shape {
        "set" => format!("[] > [{sign}{name}]"),
        "match" => format!("[{sign}{name}] > [{}voi]", if vec["voiced"].as_bool().unwrap() { "-" } else { "+" }),
        "alpha" => {
            let g = FEATS[vec["g"].as_u64().unwrap() as usize - 1].2;
            format!("[α{name}] > [{}α{g}]", if vec["inv"].as_bool().unwrap() { "-" } else { "" })
        }
        "combo" => {
            let g = FEATS[vec["g"].as_u64().unwrap() as usize - 1].2;
            let f1 = FEATS[vec["f1"].as_u64().unwrap() as usize - 1].2;
            format!("[{sign}{f1}, α{name}] > [α{g}]")
        }
        "lenmix" => format!("[] > [{}long, {sign}{name}] / #_", if vec["inv"].as_bool().unwrap() { "-" } else { "+" }),
        _ => panic!("unknown shape"),
    }
}

pub fn replay() {
    let mut sum = Summary::default();
    replay_stdin(|vec| {
        sum.vectors += 1;
        let seg = json_seg(&vec["seg"]);
        let combo = vec["shape"] == "combo";
        // combo: a two-syllable word, the partner segment first (so that whatever a failed attempt on it leaves behind would reach the target)
        let (seg2, exp2) = (json_seg(&vec["seg2"]), json_seg(&vec["exp2"]));
        let lenmix = vec["shape"] == "lenmix";
        let shorten = vec["inv"].as_bool().unwrap_or(false);
        // lenmix: one syllable, the target unit (long when it is to be shortened) followed by the partner
        if lenmix && (seg2 == seg || seg2 == json_seg(&vec["exp"])) { sum.vectors -= 1; sum.count("lenmix_skipped_equal_neighbours", 1); return; }
        let word = if combo { v::make_word(&[(vec![seg2], 0, 0), (vec![seg], 0, 0)], false) }
                   else if lenmix { v::make_word(&[(if shorten { vec![seg, seg, seg2] } else { vec![seg, seg2] }, 0, 0)], false) }
                   else { v::make_word(&[(vec![seg], 0, 0)], false) };
        let text = rule_text(&vec);
        let exp_ok = vec["st"].as_str().unwrap() == "ok";
        let exp = json_seg(&vec["exp"]);
        if exp != seg || !exp_ok { sum.nontrivial += 1; }
        let rec = crate::util::rec(2_000_000, false, false, || {
            let rules = v::parse_rules(&[RuleGroup::from_rules(vec![text.clone()])])?;
            v::apply_structural(&rules, word.clone())
        });
        let obs: Value = match &rec.result {
            Err(p) => json!({"panic": panic_msg(p)}),
            Ok(Err(e)) => json!({"err": err_json(e)}),
            Ok(Ok(steps)) => match steps.last() {
                Some(st) => word_json(&st.word),
                None => json!({"err": "no step"}),
            },
        };
        let agree = match &rec.result {
            Ok(Err(_)) => !exp_ok,
            Ok(Ok(steps)) if exp_ok => steps.last().map(|st| {
                let w = &st.word;
                if lenmix { let want: Vec<v::Segment> = if shorten { vec![exp, seg2] } else { vec![exp, exp, seg2] };
                            w.syllables.len() == 1 && w.syllables[0].segments.iter().copied().collect::<Vec<_>>() == want }
                else if combo { w.syllables.len() == 2 && w.syllables.iter().all(|s| s.segments.len() == 1 && s.tone == 0) && w.syllables[0].segments[0] == exp2 && w.syllables[1].segments[0] == exp }
                else { w.syllables.len() == 1 && w.syllables[0].segments.len() == 1 && w.syllables[0].segments[0] == exp
                    && w.syllables[0].tone == 0 && stress_str(w.syllables[0].stress) == "U" }
            }).unwrap_or(false),
            _ => false,
        };
        if agree {
            sum.agree += 1;
            sum.sample(|| json!({"rule": text, "seg": seg_json(&seg), "expected": if exp_ok { seg_json(&exp) } else { json!("error") }, "observed": obs}));
        } else {
            sum.mismatch(json!({"vector": vec, "rule": text, "observed": obs}));
        }
    });
    sum.print();
}
