//! Recording executions of generated rules for the law-checking trace specifications (TV_Laws):
//! C02 (every call returns), C06 (no-match stutter), C07 (captures reproduce), C08 (well-formed), C14 (tiers).
use asca::verif::{self as v, Event};
use asca::RuleGroup;
use crate::proj::*;
use crate::util::*;
use crate::rules;
use crate::tables;
use serde_json::{json, Value};
use std::io::Write;

pub const LETTERS: [&str; 19] = ["a", "e", "i", "o", "u", "p", "t", "k", "b", "d", "s", "z", "m", "n", "l", "r", "j", "w", "h"];
const VOWELS: [&str; 5] = ["a", "e", "i", "o", "u"];
const CONS: [&str; 14] = ["p", "t", "k", "b", "d", "s", "z", "m", "n", "l", "r", "j", "w", "h"];
/// less ordinary segments (several place nodes, pharyngeals, glottals, clicks, diacritics); never the planted q / x
const RARE: [&str; 28] = ["ħ", "ʕ", "tˤ", "kʷ", "ʔ", "ɡʷ", "pʲ", "ŋ", "ɲ", "ʃ", "t͡s", "ɴǃ", "ɫ", "e̘", "o̙", "ɥ", "t͡ʃ", "d͡ʒ", "p͡f", "ɬ", "ʙ", "ɾ",
                          // near-misses of the planted q (never q itself): q with a secondary articulation, voiced, aspirated, fricated
                          "qʷ", "qʲ", "qˤ", "ɢ", "qʰ", "χ"];
/// tones of every length (1 to 4 digits): joined tones of neighbouring syllables must still be tones
pub const TONES: [&str; 10] = ["5", "51", "214", "3", "1", "35", "12", "312", "1324", "2143"];

/// a random word text over the generator's inventory; `long`: allow length marks; stress and tone are common
pub fn gen_word_text(rng: &mut Rng, long: bool) -> String {
    if rng.chance(1, 8) {
        // tiny words: a rule can consume them whole
        let c = *rng.pick(&CONS[..]); let v = *rng.pick(&VOWELS[..]);
        return match rng.below(4) { 0 => v.to_string(), 1 => format!("{c}{v}"), 2 => format!("{v}{c}"), _ => format!("{v}.{c}{v}") };
    }
    let nsyl = 1 + rng.below(4);
    let mut s = String::new();
    let tonal = rng.chance(1, 6);          // a tonal word: (nearly) every syllable carries a tone
    let lengthy = long && rng.chance(1, 6); // a word full of long and overlong segments
    for i in 0..nsyl {
        match rng.below(5) { 0 => s.push('ˈ'), 1 => s.push('ˌ'), _ => if i > 0 { s.push('.') } }
        let shape = rng.below(6);
        let mut segs: Vec<&str> = Vec::new();
        if shape != 0 { segs.push(if rng.chance(1, 6) { *rng.pick(&RARE[..]) } else { *rng.pick(&CONS[..]) }); }
        if shape == 4 { segs.push(*rng.pick(&CONS[..])); }
        segs.push(*rng.pick(&VOWELS[..]));
        if shape == 5 { segs.push(*rng.pick(&VOWELS[..])); }
        if shape >= 2 { segs.push(*rng.pick(&CONS[..])); }
        let mut prev = "";
        for g in segs {
            if g == prev { if long { s.push('ː'); } else { continue; } } else { s.push_str(g); }
            if lengthy { if rng.chance(2, 3) { s.push('ː'); if rng.chance(1, 2) { s.push('ː'); } } }
            else if long && rng.chance(1, 8) { s.push('ː'); if rng.chance(1, 4) { s.push('ː'); } }
            prev = g;
        }
        if tonal { if !rng.chance(1, 6) { s.push_str(TONES[rng.below(TONES.len())]); } }
        else if rng.chance(1, 5) { s.push_str(["5", "51", "214", "3"][rng.below(4)]); }
    }
    s
}

pub fn w_compact(w: &v::Word, raw: bool) -> Value {
    let syls: Vec<Value> = w.syllables.iter().map(|sy| {
        let g: Vec<Value> = sy.segments.iter().map(|s| json!(seg_arr(s))).collect();
        if raw { json!({"g": g, "raw": sy.segments.iter().map(seg_raw).collect::<Vec<_>>(), "st": stress_str(sy.stress), "t": sy.tone}) }
        else { json!({"g": g, "st": stress_str(sy.stress), "t": sy.tone}) }
    }).collect();
    json!({"s": syls})
}

fn count_kind(e: &Value, f: &dyn Fn(&Value) -> bool) -> usize {
    let mut n = if f(e) { 1 } else { 0 };
    if let Some(a) = e.get("items").and_then(|x| x.as_array()) { for x in a { n += count_kind(x, f); } }
    n
}

/// step budget proportional to |word| x |rule| (x |word| per ellipsis / unbounded optional, which legitimately backtrack)
pub fn budget(word_len: usize, rule_len: usize, backtrackers: usize) -> u64 {
    let w = (word_len + 2) as u64;
    let e = backtrackers.min(3) as u32;
    (400 * w * w.pow(e) * (rule_len as u64 + 2)).min(20_000)
}

pub struct Outcome { pub out: &'static str, pub detail: String, pub site: i64, pub steps: Vec<v::Step>, pub events: Vec<Event>, pub nticks: u64 }

/// parses `texts` as one group and applies it to `word`, with a step budget; returns the word after every sub-rule
pub fn run_rules(texts: &[String], word: &v::Word, budget: u64, ticks: bool) -> Outcome {
    let (t2, w2) = (texts.to_vec(), word.clone());
    let rec = crate::util::rec(budget, false, ticks, move || {
        let rules = v::parse_rules(&[RuleGroup::from_rules(t2)])?;
        v::apply_structural(&rules, w2)
    });
    let nticks = rec.ticks;
    match rec.result {
        Ok(Ok(steps)) => Outcome { out: "ok", detail: String::new(), site: 0, steps, events: rec.events, nticks },
        Ok(Err(e)) => Outcome { out: "err", detail: err_key(&e), site: 0, steps: vec![], events: rec.events, nticks },
        Err(p) => {
            if let Some(b) = p.downcast_ref::<v::BudgetExhausted>() { Outcome { out: "budget", detail: format!("budget exhausted at loop site {}", b.site), site: b.site as i64, steps: vec![], events: rec.events, nticks } }
            else { Outcome { out: "panic", detail: panic_msg(&p), site: 0, steps: vec![], events: rec.events, nticks } }
        }
    }
}

fn ticks_json(events: &[Event], cap: usize) -> Vec<Value> {
    // [application index, site, syllable, segment, fingerprint, inner]; site 0 marks the start of a sub-rule application
    let mut out = Vec::new();
    let mut app = 0u64;
    for e in events {
        if let Event::Tick { site, syll, seg, fp, inner } = e {
            if *site == 0 { app += 1; continue; }
            if *site <= 2 { out.push(json!([app, site, syll, seg, (fp % 1_000_000_007) as i64, inner])); if out.len() >= cap { break; } }
        }
    }
    out
}

fn rule_len(ast: &Value) -> usize {
    let mut n = 0;
    for k in ["inp", "out"] { n += ast[k].as_array().map(|a| a.len()).unwrap_or(0); }
    for k in ["ctx", "exc"] { if let Some(a) = ast[k].as_array() { for e in a { n += e["b"].as_array().map(|x| x.len()).unwrap_or(0) + e["a"].as_array().map(|x| x.len()).unwrap_or(0); } } }
    n
}
fn backtrackers(ast: &Value) -> usize {
    let f = |e: &Value| e["k"] == "ell" || (e["k"] == "opt" && (e["hi"].as_u64().unwrap_or(0) == 0 || e["hi"].as_u64().unwrap_or(0) > 1)) || e["k"] == "struct";
    let mut n = 0;
    for k in ["inp", "out"] { if let Some(a) = ast[k].as_array() { for e in a { n += count_kind(e, &f); } } }
    for k in ["ctx", "exc"] { if let Some(a) = ast[k].as_array() { for e in a { for side in ["b", "a"] { if let Some(x) = e[side].as_array() { for y in x { n += count_kind(y, &f); } } } } } }
    n
}

/// token-level mutations of a valid rule text (C02)
pub fn mutate(text: &str, rng: &mut Rng) -> String {
    let toks: Vec<&str> = text.split(' ').collect();
    let mut t: Vec<String> = toks.iter().map(|s| s.to_string()).collect();
    if t.is_empty() { return text.to_string(); }
    match rng.below(6) {
        0 => { let i = rng.below(t.len()); t.remove(i); }
        1 => { let i = rng.below(t.len()); let x = t[i].clone(); t.insert(i, x); }
        2 => { if t.len() > 1 { let i = rng.below(t.len() - 1); t.swap(i, i + 1); } }
        3 => { let i = rng.below(t.len()); t[i] = ["$", "#", "%", "*", "&", "_", ">", "/", "|", "...", "(", ")", "{", "}", "[", "]", "<", ">", "=1", "1", ":", ",", "99999999999999999999", "[tone: 99999]", ":{", "}:"][rng.below(26)].to_string(); }
        4 => { let i = rng.below(t.len()); let chars: Vec<char> = t[i].chars().collect(); if !chars.is_empty() { let j = rng.below(chars.len()); t[i] = chars.iter().enumerate().filter(|(k, _)| *k != j).map(|(_, c)| *c).collect(); } }
        _ => { let i = rng.below(t.len() + 1); t.insert(i, ["$", "%", "#", "...", "=2", "&", "*"][rng.below(7)].to_string()); }
    }
    t.join(" ")
}

pub fn noise(rng: &mut Rng) -> String {
    const POOL: [&str; 48] = ["a", "t", "k", "e", "i", "ʰ", "ː", ":", "'", ".", "$", "#", "%", "*", "&", "_", ">", "=>", "->", "/", "|", "//", "(", ")", "{", "}", "[", "]", "<", ">", "⟨", "⟩", "=", "1", "2", "0", ",", ";", ";;", "+", "-", "α", "voi", "long", "tone", "…", " ", "^"];
    let n = 1 + rng.below(14);
    (0..n).map(|_| *rng.pick(&POOL)).collect::<Vec<_>>().join(if rng.chance(1, 2) { " " } else { "" })
}

pub struct Writer { f: std::io::BufWriter<std::fs::File>, meta: std::io::BufWriter<std::fs::File>, pub n: u64 }
impl Writer {
    pub fn new(out: &str) -> Self { Writer { f: std::io::BufWriter::new(std::fs::File::create(out).unwrap()), meta: std::io::BufWriter::new(std::fs::File::create(format!("{out}.meta")).unwrap()), n: 0 } }
    pub fn put(&mut self, mut rec: Value, meta: Value) {
        self.n += 1;
        rec["id"] = json!(self.n);
        let mut m = meta; m["id"] = json!(self.n);
        writeln!(self.f, "{}", rec).unwrap();
        writeln!(self.meta, "{}", m).unwrap();
    }
}

pub fn read_asts(path: &str) -> Vec<Value> {
    let f = std::io::BufReader::new(std::fs::File::open(path).expect("rules file"));
    let mut v = Vec::new();
    tlc_vectors(f, |x| v.push(x), |_| {});
    // TLC's workers print in no particular order: sort, so that a run is a function of the seed
    v.sort_by_key(|x| x["seed"].as_u64().unwrap_or(0));
    v
}

/// known-finding signatures evaluated on a failing vector (the classifier never looks at the outcome alone)
pub fn classify(prop: &str, text: &str, ast: Option<&Value>, o: &Outcome) -> Option<&'static str> {
    let _ = (prop, text, ast, o);
    None
}

#[allow(clippy::too_many_arguments)]
fn judge_c02(w: &mut Writer, sum: &mut Summary, text: &str, wt: &str, into: &[String], from: &[String], b: u64, kind: &str) {
    let (text, wt, into, from) = (text.to_string(), wt.to_string(), into.to_vec(), from.to_vec());
    let (t2, w2, i2, f2) = (text.clone(), wt.clone(), into.clone(), from.clone());
    let rec = crate::util::rec(b, false, true, move || asca::run(&[RuleGroup::from_rules(vec![t2])], &[w2], &i2, &f2));
    let (outk, detail, site) = match &rec.result {
        Ok(Ok(_)) => ("ok", String::new(), 0i64),
        Ok(Err(e)) => ("err", err_key(e), 0),
        Err(p) => if let Some(bx) = p.downcast_ref::<v::BudgetExhausted>() { ("budget", format!("loop site {}", bx.site), bx.site as i64) } else { ("panic", panic_msg(p), 0) },
    };
    sum.vectors += 1; sum.count(outk, 1); sum.count(kind, 1);
    if outk != "budget" { let m = sum.extra.get("max_ticks_of_a_returning_call").and_then(|x| x.as_u64()).unwrap_or(0); if rec.ticks > m { sum.extra.insert("max_ticks_of_a_returning_call".into(), json!(rec.ticks)); } }
    if outk == "ok" { sum.nontrivial += 1; }
    let ticks = ticks_json(&rec.events, 300);
    // the tracer must return too
    let (t3, w3) = (text.clone(), wt.clone());
    let i3 = into.clone();
    let rec2 = crate::util::rec(b, false, false, move || asca::get_trace_string(&[RuleGroup::from_rules(vec![t3])], w3, &i3).map(|_| ()));
    let out2 = match &rec2.result { Ok(_) => "ret", Err(p) => if p.downcast_ref::<v::BudgetExhausted>().is_some() { "budget" } else { "panic" } };
    let detail2 = match &rec2.result { Ok(_) => String::new(), Err(p) => panic_msg(p) };
    w.put(json!({"cls": kind, "out": outk, "out2": out2, "site": site, "nticks": rec.ticks as i64, "ticks": ticks}),
          json!({"rule": text, "word": wt, "into": into, "from": from, "outcome": outk, "detail": detail, "trace_outcome": out2, "trace_detail": detail2, "budget": b}));
    if sum.samples.len() < 5 { sum.sample(|| json!({"kind": kind, "rule": text, "word": wt, "outcome": outk, "detail": detail})); }
}

pub fn record(prop: &str, rules_file: &str, out: &str, nwords: usize) {
    let t = tables::load();
    let seed = env_u64("VERIF_SEED", 1);
    let asts = read_asts(rules_file);
    let mut w = Writer::new(out);
    let mut sum = Summary::default();
    let mut rng = Rng::new(seed ^ 0xC0FFEE);
    let al = v::no_aliases();
    match prop {
        "C06" | "C07" | "C14" => {
            let lex = crate::c13::load_lex();
            for a in &asts {
                let canonical = rules::rule_text(&a["rule"], &t);
                // every third rule is run in one of its documented respellings (feature abbreviations, arrows, `//`, alpha letters ...): the laws are about
                // the rule, not about one way of writing it; findings are classified on the canonical text
                let aseed = a["seed"].as_u64().unwrap_or(0);
                let text = if aseed % 3 == 0 { sum.count("respelled_rules", 1); crate::c13::respell_rule(&canonical, seed.wrapping_mul(53).wrapping_add(aseed), &lex) } else { canonical.clone() };
                let cls = a["class"].as_str().unwrap_or("any").to_string();
                let mut r2 = Rng::new(seed.wrapping_mul(31).wrapping_add(a["seed"].as_u64().unwrap_or(0)));
                // half of the words are random, half are assembled from segments matching the rule's own elements (whole, cut short, doubled)
                let directed = crate::directed::words(&a["rule"], &t, &mut r2, nwords.div_ceil(2));
                let planted = t.cards.iter().find(|(g, _)| g == "q").map(|(_, s)| *s);
                for wi in 0..nwords {
                    let long = !(cls == "seg-ipa");
                    let mut wt = if wi % 2 == 1 && wi / 2 < directed.len() { sum.count("directed_words", 1); directed[wi / 2].clone() } else { gen_word_text(&mut r2, long) };
                    if !long { wt = wt.replace('ː', ""); }
                    let Ok(word) = v::parse_word(&wt, &al) else { continue };
                    // a class whose words must have no long segments: also none that arise from two equal neighbours
                    if !long && word.syllables.iter().any(|sy| (1..sy.segments.len()).any(|i| sy.segments[i] == sy.segments[i - 1])) { continue; }
                    // C06: the word must not contain the planted literal itself (its near-misses are welcome)
                    if prop == "C06" && word.syllables.iter().any(|sy| sy.segments.iter().any(|s| Some(*s) == planted)) { continue; }
                    let wl: usize = word.syllables.iter().map(|s| s.segments.len()).sum();
                    let o = run_rules(&[text.clone()], &word, budget(wl, rule_len(&a["rule"]), backtrackers(&a["rule"])), false);
                    let after = o.steps.last().map(|s| s.word.clone()).unwrap_or(word.clone());
                    sum.vectors += 1;
                    if o.out == "ok" { sum.count("ok", 1); if after != word { sum.nontrivial += 1; } } else { sum.count(o.out, 1); }
                    w.put(json!({"cls": cls, "out": o.out, "w": w_compact(&word, false), "a": w_compact(&after, false)}),
                          json!({"rule": canonical, "rule_as_run": text, "word": wt, "before": v::render_word(&word, &al), "outcome": o.out, "detail": o.detail, "after": v::render_word(&after, &al)}));
                    if sum.samples.len() < 4 && o.out == "ok" { sum.sample(|| json!({"rule": text, "word": wt, "after": v::render_word(&after, &al), "class": cls})); }
                }
            }
            if prop == "C06" && env_u64("VERIF_SWEEPS", 1) == 1 {
                // systematic stratum: the absent literal q at every position of small input templates (and, for insertion, context templates)
                let in_templates: [&[&str]; 14] = [&["a"], &["a", "$"], &["$", "a"], &["a", "...", "t"], &["%=1", "1"], &["{%}"], &["{a, $}"], &["C=1", "V", "1"], &["a", "t"], &["%", "a"], &["<C V>"], &["V:[+long]"], &["[]=1", "1"], &["a", "%"]];
                let ctx_templates: [(&[&str], &[&str]); 8] = [(&[], &["$"]), (&["$"], &[]), (&["a"], &[]), (&[], &["a"]), (&["%"], &[]), (&["a", "$"], &[]), (&[], &["$", "t"]), (&["#"], &["C"])];
                let mut sweep: Vec<String> = Vec::new();
                for tpl in in_templates.iter() {
                    for pos in 0..=tpl.len() {
                        let mut els: Vec<&str> = tpl.to_vec(); els.insert(pos, "q");
                        let inp = els.join(" ");
                        let outs = (0..els.len()).map(|_| "o").collect::<Vec<_>>().join(" ");
                        sweep.push(format!("{inp} > {outs}")); sweep.push(format!("{inp} > o")); sweep.push(format!("{inp} > *")); sweep.push(format!("{inp} > &"));
                        sweep.push(format!("{inp} > * / _#")); sweep.push(format!("{inp} > o / #_"));
                    }
                }
                for (b, a) in ctx_templates.iter() {
                    for side in 0..2 { let src = if side == 0 { b } else { a };
                        for pos in 0..=src.len() {
                            let mut els: Vec<&str> = src.to_vec(); els.insert(pos, "q");
                            if els.first() == Some(&"q") && els.contains(&"#") && side == 0 { continue; }
                            let (bs, as_) = if side == 0 { (els.join(" "), a.join(" ")) } else { (b.join(" "), els.join(" ")) };
                            sweep.push(format!("* > e / {bs}_{as_}")); sweep.push(format!("* > $ / {bs}_{as_}")); sweep.push(format!("* > e t / {bs}_{as_}"));
                        }
                    }
                }
                // ... and inside syllable structures: `<C V>` etc. with q at every inner position, as input and next to the underline of an insertion
                let struct_templates: [&[&str]; 6] = [&["C", "V"], &["C", "V", "C"], &["...", "a"], &["C", "..."], &["k", "a"], &["[]"]];
                for tpl in struct_templates.iter() {
                    for pos in 0..=tpl.len() {
                        if pos > 0 && tpl[pos - 1] == "..." && pos == tpl.len() && tpl.len() == 1 { continue; }
                        let mut els: Vec<&str> = tpl.to_vec(); els.insert(pos, "q");
                        let st = format!("<{}>", els.join(" "));
                        for r in [format!("{st} > *"), format!("{st} > <p u>"), format!("{st} > [+stress]"), format!("{st} <t a> > &"), format!("<t a> {st} > &"), format!("{st} > [tone: 5] / _#"),
                                  format!("* > e / _{st}"), format!("* > e / {st}_"), format!("* > $ / a_{st}"), format!("* > e / {st} $_")] { sweep.push(r); }
                    }
                }
                // every template once more with the absent literal wearing a modifier block (matched through its matrix, not by equality)
                let dressed: Vec<String> = sweep.iter().filter(|t| t.contains(" q ") || t.starts_with("q ")).map(|t| t.replacen("q ", "q:[-long] ", 1)).collect();
                sweep.extend(dressed);
                for text in sweep {
                    if v::parse_rules(&[RuleGroup::from_rules(vec![text.clone()])]).is_err() { sum.count("sweep_rules_rejected_by_parser", 1); continue; }
                    for _ in 0..nwords {
                        let wt = gen_word_text(&mut rng, true);
                        let Ok(word) = v::parse_word(&wt, &al) else { continue };
                        let o = run_rules(&[text.clone()], &word, 20_000, false);
                        let after = o.steps.last().map(|s| s.word.clone()).unwrap_or(word.clone());
                        sum.vectors += 1; sum.count(o.out, 1); sum.count("planted_position_sweep", 1);
                        w.put(json!({"cls": "sweep", "out": o.out, "w": w_compact(&word, false), "a": w_compact(&after, false)}), json!({"rule": text, "word": wt, "outcome": o.out, "detail": o.detail, "after": v::render_word(&after, &al)}));
                    }
                }
                // blank and comment-only lines
                for text in ["", "   ", "\t", ";; a comment", "   ;; note > with / symbols _", ";;"] {
                    for _ in 0..(nwords * 10) {
                        let wt = gen_word_text(&mut rng, true);
                        let Ok(word) = v::parse_word(&wt, &al) else { continue };
                        let o = run_rules(&[text.to_string()], &word, 100_000, false);
                        let after = o.steps.last().map(|s| s.word.clone()).unwrap_or(word.clone());
                        sum.vectors += 1; sum.count(o.out, 1);
                        w.put(json!({"cls": "blank", "out": o.out, "w": w_compact(&word, false), "a": w_compact(&after, false)}), json!({"rule": text, "word": wt, "outcome": o.out, "detail": o.detail}));
                    }
                }
            }
        }
        "C08" => {
            // histories: sequences of up to 6 rules (generated, repository tests, shipped project); the word after EVERY sub-rule
            let c = crate::pipeline::load_corpus();
            let texts: Vec<String> = asts.iter().map(|a| rules::rule_text(&a["rule"], &t)).collect();
            let ie_rules: Vec<String> = c.ie.iter().flat_map(|f| f.iter().flat_map(|g| g.rule.clone())).collect();
            let mut seen = std::collections::HashSet::new();
            let nhist = asts.len() * nwords / 2;
            for _ in 0..nhist {
                let k = 1 + rng.below(6);
                let first = rng.below(texts.len());
                let hist: Vec<String> = (0..k).map(|hi| if hi == 0 { texts[first].clone() } else { match rng.below(10) { 0..=5 => rng.pick(&texts).clone(), 6..=7 => rng.pick(&c.test_rules).clone(), _ => if ie_rules.is_empty() { rng.pick(&texts).clone() } else { rng.pick(&ie_rules).clone() } } }).collect();
                let wt = if rng.chance(1, 4) { rng.pick(&c.test_words).clone() } else if rng.chance(1, 2) { crate::directed::words(&asts[first]["rule"], &t, &mut rng, 1).pop().unwrap_or_else(|| gen_word_text(&mut rng, true)) } else { gen_word_text(&mut rng, true) };
                let Ok(word) = v::parse_word(&wt, &al) else { continue };
                if word.syllables.is_empty() { continue; }
                let wl: usize = word.syllables.iter().map(|s| s.segments.len()).sum();
                let o = run_rules(&hist, &word, budget(wl + 8, 12 * k, 3), false);
                sum.vectors += 1; sum.count(o.out, 1);
                let mut prev = word.clone();
                for (si, st) in o.steps.iter().enumerate() {
                    if st.word != prev { sum.nontrivial += 1; }
                    let key = w_compact(&st.word, true).to_string();
                    if seen.insert(key) {
                        w.put(json!({"cls": "hist", "out": "ok", "w": w_compact(&st.word, true)}),
                              json!({"history": hist, "word": wt, "step": si, "rule_index": st.rule, "sub": st.sub, "before": v::render_word(&prev, &al), "after": v::render_word(&st.word, &al)}));
                    }
                    prev = st.word.clone();
                }
                if sum.samples.len() < 4 && o.out == "ok" { sum.sample(|| json!({"history": hist, "word": wt, "final": v::render_word(&prev, &al)})); }
            }
            // systematic stratum: every cardinal, its place sub-nodes removed one rule at a time in every order, then restored
            let names = ["labial", "coronal", "dorsal", "pharyngeal"];
            let sweeps = env_u64("VERIF_SWEEPS", 1) == 1;       // the strata below do not depend on the generated rules: once per check is enough
            for (g, seg) in t.cards.iter().filter(|_| sweeps) {
                let present: Vec<usize> = (0..4).filter(|i| seg.get_node(NODES7[3 + i]).is_some()).collect();
                let mut orders: Vec<Vec<usize>> = vec![vec![]];
                for _ in 0..present.len() { orders = orders.into_iter().flat_map(|o| present.iter().filter(|x| !o.contains(x)).map(|x| { let mut n = o.clone(); n.push(*x); n }).collect::<Vec<_>>()).collect(); }
                for o in orders {
                    let mut hist: Vec<String> = o.iter().map(|i| format!("[] > [-{}]", names[*i])).collect();
                    hist.push(format!("[] > [+{}]", names[*o.last().unwrap_or(&0)]));
                    let word = v::make_word(&[(vec![*seg], 0, 0)], false);
                    let out = run_rules(&hist, &word, 100_000, false);
                    sum.vectors += 1; sum.count(out.out, 1); sum.count("node_order_sweep", 1);
                    let mut prev = word.clone();
                    for (si, st) in out.steps.iter().enumerate() {
                        if st.word != prev { sum.nontrivial += 1; }
                        let key = w_compact(&st.word, true).to_string();
                        if seen.insert(key) {
                            w.put(json!({"cls": "sweep", "out": "ok", "w": w_compact(&st.word, true)}), json!({"history": hist, "word": g, "step": si, "rule_index": st.rule, "sub": st.sub, "before": v::render_word(&prev, &al), "after": v::render_word(&st.word, &al)}));
                        }
                        prev = st.word.clone();
                    }
                }
            }
            // systematic stratum: rules that can consume a whole (tiny) word
            for wt in ["a", "ta", "at", "tat", "a.ta", "ta.ta", "ˈta", "ta5", "a.a", "t.a"].iter().filter(|_| sweeps) {
                for rule in ["[] [] > *", "C V > *", "V C > *", "[] [] [] > *", "C V C > *", "[] $ [] > *", "% > *", "% % > *", "[] > *", "V > * / _#", "C > * / #_", "[] [] > * / #_#", "V $ C V > *", "{t, a} {t, a} > *"] {
                    let Ok(word) = v::parse_word(wt, &al) else { continue };
                    let out = run_rules(&[rule.to_string()], &word, 100_000, false);
                    sum.vectors += 1; sum.count(out.out, 1); sum.count("whole_word_sweep", 1);
                    for (si, st) in out.steps.iter().enumerate() {
                        if st.word != word { sum.nontrivial += 1; }
                        let key = format!("{}|{}", rule, w_compact(&st.word, true));
                        if seen.insert(key) {
                            w.put(json!({"cls": "sweep", "out": "ok", "w": w_compact(&st.word, true)}), json!({"history": [rule], "word": wt, "step": si, "rule_index": st.rule, "sub": st.sub, "before": wt, "after": v::render_word(&st.word, &al)}));
                        }
                    }
                }
            }
            // systematic stratum: tones of neighbouring syllables joined by every boundary-removing rule shape, for every ordered pair (and triple) of tones of 1..4 digits
            for (ti, t1) in TONES.iter().enumerate().filter(|_| sweeps) {
                for t2 in TONES.iter() {
                    let t3 = TONES[(ti * 7 + 3) % TONES.len()];
                    for wt in [format!("ma{t1}.na{t2}"), format!("ma{t1}.na{t2}.ka{t3}"), format!("man{t1}.ka{t2}"), format!("ˈma{t1}ˌna{t2}")] {
                        for rule in ["$ > *", "$ > * / _n", "n$ > ŋ", "$ C > & / a_", "a $ > e", "% % > &", "$ > * / a_k", "$n > *"] {
                            let Ok(word) = v::parse_word(&wt, &al) else { continue };
                            let out = run_rules(&[rule.to_string()], &word, 100_000, false);
                            sum.vectors += 1; sum.count(out.out, 1); sum.count("tone_join_sweep", 1);
                            for (si, st) in out.steps.iter().enumerate() {
                                if st.word != word { sum.nontrivial += 1; }
                                let key = format!("{}|{}", rule, w_compact(&st.word, true));
                                if seen.insert(key) {
                                    w.put(json!({"cls": "sweep", "out": "ok", "w": w_compact(&st.word, true)}), json!({"history": [rule], "word": wt, "step": si, "rule_index": st.rule, "sub": st.sub, "before": wt, "after": v::render_word(&st.word, &al)}));
                                }
                            }
                        }
                    }
                }
            }
            sum.count("distinct_intermediate_words", w.n);
        }
        "C02" => {
            let c = crate::pipeline::load_corpus();
            let n = asts.len();
            for (i, a) in asts.iter().enumerate() {
                let base = rules::rule_text(&a["rule"], &t);
                // a third as generated, a third mutated, a third noise (rule or word)
                let (text, kind) = match i % 3 { 0 => (base.clone(), "grammar"), 1 => (mutate(&base, &mut rng), "mutated"), _ => (if rng.chance(1, 2) { noise(&mut rng) } else { mutate(&mutate(&base, &mut rng), &mut rng) }, "noise") };
                let directed = if kind == "grammar" { crate::directed::words(&a["rule"], &t, &mut rng, nwords.div_ceil(2)) } else { vec![] };
                for j in 0..nwords {
                    let wt = if kind == "noise" && j % 2 == 1 { noise(&mut rng) } else if j % 2 == 1 && j / 2 < directed.len() { sum.count("directed_words", 1); directed[j / 2].clone() }
                             else if rng.chance(1, 6) { rng.pick(&c.test_words).clone() } else { gen_word_text(&mut rng, true) };
                    let wl = wt.chars().count();
                    let b = budget(wl, rule_len(&a["rule"]) + 4, backtrackers(&a["rule"]) + 1);
                    // alias strings: mostly none; documented shapes (multi-element inputs with modifiers, + operator, $ rules); mutations and noise
                    const FROMS: [&str; 10] = ["xan:[tone:55] > H", "a [+cons] > X", "t a:[+long] > X", "V:[+str, +long] > +\u{302}", "$ > *", "ka, ta, na > K, T, N", "[+nasal] > +\u{328}", "ʃ:[+long] > ssh", "a:[+long] > ā", "[-anterior] > X"];
                    const INTOS: [&str; 6] = ["sh > ʃ", "â, ā > a:[+str, +long], a:[+long]", "+\u{328} > [+nasal]", "ng > ŋ", "x > ks", "A > a:[tone: 55]"];
                    let (into, from): (Vec<String>, Vec<String>) = match rng.below(8) {
                        0 | 1 => (vec![], (0..1 + rng.below(2)).map(|_| rng.pick(&FROMS[..]).to_string()).collect()),
                        2 => ((0..1 + rng.below(2)).map(|_| rng.pick(&INTOS[..]).to_string()).collect(), vec![]),
                        3 => { let (a, b) = (*rng.pick(&INTOS[..]), *rng.pick(&FROMS[..])); (vec![mutate(a, &mut rng)], vec![mutate(b, &mut rng)]) }
                        4 if kind == "noise" => (vec![noise(&mut rng)], vec![noise(&mut rng)]),
                        _ => (vec![], vec![]),
                    };
                    judge_c02(&mut w, &mut sum, &text, &wt, &into, &from, b, kind);
                }
            }
            if env_u64("VERIF_SWEEPS", 1) == 1 {
                // systematic stratum: the length bookkeeping of multi-element substitutions. Every length modifier on the first output of a
                // two/three-element rule, every length state (short, long, overlong) of the first target, the rest in the same or the next syllable.
                const LENMODS: [&str; 9] = ["[+long]", "[-long]", "[+overlong]", "[-overlong]", "[+long, -overlong]", "[+long, +overlong]", "[-long, -overlong]", "a:[+long]", "[+long, +stress]"];
                for m1 in LENMODS { for m2 in ["[+voi]", "d", "[+long]", "[-long]"] {
                    for rule in [format!("V C > {m1} {m2}"), format!("C V > {m2} {m1}"), format!("V C C > {m1} {m2} {m2}"), format!("V:[+overlong] C > {m1} {m2}"), format!("V C > {m1} {m2} / _#"), format!("V:[+long] > {m1} t")] {
                        for wt in ["pat", "pa:t", "pa::t", "pa::ts", "pa:.ta", "a::t.ta", "ta::", "a:t:a:", "pa::t:s", "ˈpa::t5"] {
                            judge_c02(&mut w, &mut sum, &rule, wt, &[], &[], 20_000, "length-sweep");
                        }
                    }
                } }
                // systematic stratum: the alias grammar. Every element shape x every modifier kind (binary, suprasegmental, tone, alpha, node, unknown)
                // x every replacement shape, as a romaniser and as a deromaniser.
                const AMODS: [&str; 15] = ["", "+long", "-long", "+overlong", "+stress", "-sec.stress", "tone: 55", "tone: 123456", "Avoi", "-Avoi", "+place", "-labial", "+voi, -voi", "+foo", "αlong"];
                for m in AMODS {
                    let els: Vec<String> = if m.is_empty() { vec!["a".into(), "[]".into(), "V".into(), "$".into(), "t a".into()] } else { vec![format!("a:[{m}]"), format!("[{m}]"), format!("V:[{m}]"), format!("t a:[{m}]"), format!("%:[{m}]")] };
                    for el in &els {
                        for rhs in ["X", "+X", "*", "+", "$"] { for wt in ["ta.ta", "ta:55", "ˈxa"] { judge_c02(&mut w, &mut sum, "q > q", wt, &[], &[format!("{el} > {rhs}")], 20_000, "alias-sweep"); } }
                        for lhs in ["x", "+x", "xy"] { for wt in ["xa.ta", "taxy", "x"] { judge_c02(&mut w, &mut sum, "q > q", wt, &[format!("{lhs} > {el}")], &[], 20_000, "alias-sweep"); } }
                    }
                }
            }
            let _ = n;
        }
        _ => panic!("unknown law property {prop}"),
    }
    sum.agree = sum.vectors;
    sum.count("records", w.n);
    sum.print();
}
