//! C17: planted faults. Every error value must be formattable against the inputs that produced it,
//! name the planted (group, line) / alias line / word, and put its carets inside the line.
use asca::verif as v;
use asca::{ASCAError, Error, RuleGroup};
use crate::proj::*;
use crate::util::*;
use serde_json::{json, Value};

pub struct Catalogue { pub fillers: Vec<String>, pub word: String, pub syn: Vec<String>, pub late: Vec<String>, pub run: Vec<String>, pub words: Vec<String>, pub alias: Vec<(String, String)>, pub dropped: Vec<String> }

fn run_one(groups: &[RuleGroup], words: &[String], into: &[String], from: &[String]) -> Result<Result<Vec<String>, Error>, String> {
    let (g, w, i, f) = (groups.to_vec(), words.to_vec(), into.to_vec(), from.to_vec());
    let rec = crate::util::rec(2_000_000, false, false, move || asca::run(&g, &w, &i, &f));
    rec.result.map_err(|p| panic_msg(&p))
}

pub fn load_catalogue() -> Catalogue {
    let path = std::env::var("VERIF_FAULTS").unwrap_or("/verif/spec/frozen/faults.json".into());
    let c: Value = serde_json::from_str(&std::fs::read_to_string(path).expect("faults.json")).unwrap();
    let strs = |x: &Value| x.as_array().unwrap().iter().map(|s| s.as_str().unwrap().to_string()).collect::<Vec<_>>();
    let word = c["word"].as_str().unwrap().to_string();
    let mut dropped = Vec::new();
    // calibration: a candidate stays only if, alone, it fails in the expected class on this tree
    let class_of = |r: &Result<Result<Vec<String>, Error>, String>| match r { Ok(Err(e)) => err_json(e)["class"].as_str().unwrap().to_string(), Ok(Ok(_)) => "Ok".into(), Err(_) => "Panic".into() };
    let mut syn = Vec::new();
    let mut late = Vec::new();     // rule syntax errors that are only raised when the rule is applied (split_into_subrules): they rank with runtime faults
    for s in strs(&c["syn"]) {
        let r = run_one(&[RuleGroup::from_rules(vec![s.clone()])], &[word.clone()], &[], &[]);
        if class_of(&r) == "RuleSyn" {
            let r0 = run_one(&[RuleGroup::from_rules(vec![s.clone()])], &[], &[], &[]);
            if class_of(&r0) == "RuleSyn" { syn.push(s) } else { late.push(s) }
        } else { dropped.push(format!("syn {:?}: {}", s, class_of(&r))) }
    }
    let mut run = Vec::new();
    for s in strs(&c["run"]) { let r = run_one(&[RuleGroup::from_rules(vec![s.clone()])], &[word.clone()], &[], &[]); if class_of(&r) == "RuleRun" { run.push(s) } else { dropped.push(format!("run {:?}: {}", s, class_of(&r))) } }
    let mut words = Vec::new();
    for s in strs(&c["words"]) { let r = run_one(&[], &[s.clone()], &[], &[]); if class_of(&r).starts_with("Word") { words.push(s) } else { dropped.push(format!("word {:?}: {}", s, class_of(&r))) } }
    let mut alias = Vec::new();
    for a in c["alias"].as_array().unwrap() {
        let (sec, line) = (a[0].as_str().unwrap().to_string(), a[1].as_str().unwrap().to_string());
        let r = if sec == "into" { run_one(&[], &[word.clone()], &[line.clone()], &[]) } else { run_one(&[], &[word.clone()], &[], &[line.clone()]) };
        if class_of(&r).starts_with("Alias") { alias.push((sec, line)) } else { dropped.push(format!("alias {:?}: {}", line, class_of(&r))) }
    }
    Catalogue { fillers: strs(&c["fillers"]), word, syn, late, run, words, alias, dropped }
}

pub fn print_counts() {
    let c = load_catalogue();
    // which error variants the calibrated catalogue reaches (the catalogue is meant to reach every variant the library can return)
    let mut variants = std::collections::BTreeSet::new();
    let key = |r: Result<Result<Vec<String>, Error>, String>| match r { Ok(Err(e)) => err_key(&e), Ok(Ok(_)) => "Ok".to_string(), Err(_) => "Panic".to_string() };
    for s in c.syn.iter().chain(c.late.iter()).chain(c.run.iter()) { variants.insert(key(run_one(&[RuleGroup::from_rules(vec![s.clone()])], &[c.word.clone()], &[], &[]))); }
    for s in &c.words { variants.insert(key(run_one(&[], &[s.clone()], &[], &[]))); }
    for (sec, line) in &c.alias { variants.insert(key(if sec == "into" { run_one(&[], &[c.word.clone()], &[line.clone()], &[]) } else { run_one(&[], &[c.word.clone()], &[], &[line.clone()]) })); }
    println!("VARIANTS {}", json!(variants));
    println!("FAULTS {}", json!({"syn": c.syn.len(), "late": c.late.len(), "run": c.run.len(), "words": c.words.len(), "alias": c.alias.len(), "dropped": c.dropped}));
}

fn strip_ansi(s: &str) -> String {
    let mut out = String::new();
    let mut it = s.chars().peekable();
    while let Some(c) = it.next() {
        if c == '\u{1b}' { for d in it.by_ref() { if d.is_ascii_alphabetic() { break; } } } else { out.push(c); }
    }
    out
}

/// formats `e` against the inputs under catch_unwind; returns (formatted text, location named, caret spans ok, detail)
fn format_checked(e: &Error, groups: &[RuleGroup], words: &[String], into: &[String], from: &[String]) -> Result<String, String> {
    let (e2, g, w, i, f) = (e.clone(), groups.to_vec(), words.to_vec(), into.to_vec(), from.to_vec());
    let rec = crate::util::rec(0, false, false, move || match &e2 {
        Error::WordSyn(x) => x.format_word_error(&w), Error::WordRun(x) => x.format_word_error(&w),
        Error::AliasSyn(x) => x.format_alias_error(&i, &f), Error::AliasRun(x) => x.format_alias_error(&i, &f),
        Error::RuleSyn(x) => x.format_rule_error(&g), Error::RuleRun(x) => x.format_rule_error(&g),
    });
    rec.result.map(|s| strip_ansi(&s)).map_err(|p| panic_msg(&p))
}

/// caret columns of the arrow line that follows the quoted source line: all must lie in [0, chars(line)+1]
fn carets_ok(text: &str, line: &str) -> Result<(), String> {
    const MARG: &str = "    |     ";
    let lines: Vec<&str> = text.split('\n').collect();
    let n = line.chars().count();
    for (i, l) in lines.iter().enumerate() {
        if let Some(rest) = l.strip_prefix(MARG) {
            if rest == line && i + 1 < lines.len() {
                if let Some(arrows) = lines[i + 1].strip_prefix(MARG) {
                    if arrows.trim().is_empty() { return Ok(()); }      // an empty span: nothing is marked, which is within the line
                    if !arrows.chars().all(|c| c == ' ' || c == '^') { return Err(format!("unexpected arrow line {:?}", arrows)); }
                    let last = arrows.trim_end().chars().count();
                    if last > n + 1 { return Err(format!("caret at column {} of a {}-character line", last - 1, n)); }
                    return Ok(());
                }
            }
        }
    }
    Err("source line not quoted in the formatted error".into())
}

pub fn replay() {
    let c = load_catalogue();
    let mut sum = Summary::default();
    sum.extra.insert("catalogue".into(), json!({"syn": c.syn.len(), "late_syntax": c.late, "run": c.run.len(), "words": c.words.len(), "alias": c.alias.len(), "dropped_by_calibration": c.dropped}));
    replay_stdin(|vec| {
        sum.vectors += 1; sum.nontrivial += 1;
        let shape: Vec<usize> = vec["shape"].as_array().unwrap().iter().map(|x| x.as_u64().unwrap() as usize).collect();
        // build the valid project
        let mut groups: Vec<RuleGroup> = shape.iter().enumerate().map(|(gi, n)| RuleGroup { name: format!("g{gi}"), rule: (0..*n).map(|li| c.fillers[(gi * 3 + li) % c.fillers.len()].clone()).collect(), description: String::new() }).collect();
        let mut words = vec![c.word.clone(), "ta".to_string()];
        let mut into: Vec<String> = vec!["sh > ʃ".into(), "ng > ŋ".into()];
        let mut from: Vec<String> = vec!["ʃ > sh".into()];
        // plant
        let mut planted = Vec::new();      // (kind, g, l, text)
        for f in vec["faults"].as_array().unwrap() {
            let kind = f["kind"].as_str().unwrap();
            let idx = f["f"].as_u64().unwrap() as usize - 1;
            match kind {
                "syn" | "run" | "late" => {
                    let (g, l) = (f["g"].as_u64().unwrap() as usize - 1, f["l"].as_u64().unwrap() as usize - 1);
                    let text = if kind == "syn" { c.syn[idx % c.syn.len()].clone() } else if kind == "late" { c.late[idx % c.late.len()].clone() } else { c.run[idx % c.run.len()].clone() };
                    groups[g].rule[l] = text.clone();
                    planted.push((kind.to_string(), g, l, text));
                }
                "word" => { let pos = f["l"].as_u64().unwrap() as usize - 1; let text = c.words[idx % c.words.len()].clone(); words[pos % 2] = text.clone(); planted.push(("word".into(), 0, pos % 2, text)); }
                _ => { let (sec, text) = c.alias[idx % c.alias.len()].clone(); let pos = f["l"].as_u64().unwrap() as usize - 1;
                       if sec == "into" { into[pos % 2] = text.clone(); planted.push(("alias-into".into(), 0, pos % 2, text)); } else { from[0] = text.clone(); planted.push(("alias-from".into(), 0, 0, text)); } }
            }
        }
        let exp = vec["expect"].as_u64().unwrap() as usize - 1;      // which planted fault must be reported
        let (ekind, eg, el, etext) = planted[exp].clone();
        let case = |obs: Value| json!({"groups": groups.iter().map(|g| g.rule.clone()).collect::<Vec<_>>(), "words": words, "into": into, "from": from,
                                        "planted": planted.iter().map(|p| json!([p.0, p.1 + 1, p.2 + 1, p.3])).collect::<Vec<_>>(), "expected_report": [ekind, eg + 1, el + 1], "observed": obs});
        match run_one(&groups, &words, &into, &from) {
            Err(p) => sum.mismatch(case(json!({"panic_in_run": p}))),
            Ok(Ok(out)) => sum.mismatch(case(json!({"no_error": out}))),
            Ok(Err(e)) => {
                let class = err_json(&e)["class"].as_str().unwrap().to_string();
                match format_checked(&e, &groups, &words, &into, &from) {
                    Err(p) => sum.mismatch(case(json!({"formatter_panicked": p, "error": err_json(&e)}))),
                    Ok(text) => {
                        let mut problems: Vec<String> = Vec::new();
                        match ekind.as_str() {
                            "syn" | "run" | "late" => {
                                if !class.starts_with("Rule") { problems.push(format!("error class {class}")); }
                                let want = format!("Rule {}, Line {}", eg + 1, el + 1);
                                if !text.trim_end().ends_with(&want) { problems.push(format!("names {:?}, planted at {want}", text.trim_end().rsplit('@').next().unwrap_or("").trim())); }
                                else if let Err(d) = carets_ok(&text, &etext) { problems.push(d); }
                            }
                            "word" => { if !class.starts_with("Word") { problems.push(format!("error class {class}")); } if !etext.split(' ').any(|w| !w.is_empty() && text.contains(w)) { problems.push("does not show the bad word".into()); } }
                            _ => {
                                if !class.starts_with("Alias") { problems.push(format!("error class {class}")); }
                                let want = if ekind == "alias-into" { format!("deromaniser, line {}", el + 1) } else { format!("romaniser, line {}", el + 1) };
                                if !text.trim_end().ends_with(&want) { problems.push(format!("does not name {want}")); } else if let Err(d) = carets_ok(&text, &etext) { problems.push(d); }
                            }
                        }
                        if problems.is_empty() { sum.agree += 1; if sum.vectors % 397 == 0 { sum.sample(|| json!({"planted": [ekind, eg + 1, el + 1, etext], "formatted": text})); } }
                        else { sum.mismatch(case(json!({"problems": problems, "error": err_json(&e), "formatted": text}))); }
                    }
                }
            }
        }
    });
    sum.print();
}
