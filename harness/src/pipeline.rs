//! Pipeline workloads: records the loop events of `run` / `trace_changes` for trace validation (TV_Pipeline)
//! and replays TLC-chosen schedules (GEN_Pipeline) on real rules.
use asca::verif::{self as v, Event};
use asca::RuleGroup;
use crate::proj::*;
use crate::util::*;
use serde_json::{json, Value};
use std::collections::HashMap;
use std::io::Write;

pub struct Corpus {
    pub test_rules: Vec<String>,
    pub test_words: Vec<String>,
    pub ie: Vec<Vec<RuleGroup>>,
    pub ie_words: Vec<String>,
    pub ie_into: Vec<String>,
    pub ie_from: Vec<String>,
    pub gen_rules: Vec<String>,
    pub gen_pairs: Vec<(String, String)>,
    /// generated rule text -> words assembled from the rule's own elements
    pub directed: HashMap<String, Vec<String>>,
}

pub fn load_corpus() -> Corpus {
    let path = std::env::var("VERIF_CORPUS").unwrap_or("/verif/.build/corpus.json".into());
    let c: Value = serde_json::from_str(&std::fs::read_to_string(&path).expect("corpus.json")).unwrap();
    let strs = |x: &Value| x.as_array().map(|a| a.iter().map(|s| s.as_str().unwrap().to_string()).collect::<Vec<_>>()).unwrap_or_default();
    let ie = c["ie"].as_array().unwrap().iter().map(|f| f["groups"].as_array().unwrap().iter().map(|g| RuleGroup {
        name: g["name"].as_str().unwrap().into(), rule: strs(&g["rule"]), description: g["description"].as_str().unwrap().into() }).collect()).collect();
    let pool: Vec<String> = std::env::var("VERIF_RULEPOOL").ok().map(|ps| ps.split(':').filter_map(|p| std::fs::read_to_string(p).ok()).collect::<Vec<_>>().join("\n"))
        .map(|s| s.lines().filter(|l| !l.trim().is_empty()).map(|l| l.to_string()).collect()).unwrap_or_default();
    // a pool line is `rule` or `rule <tab> rule2`, then a unit separator and the words assembled from the rule's own elements
    let mut directed: HashMap<String, Vec<String>> = HashMap::new();
    let pool: Vec<String> = pool.iter().map(|l| match l.split_once('\u{1f}') {
        Some((r, ws)) => { let ws: Vec<String> = ws.split(' ').filter(|w| !w.is_empty()).map(|w| w.to_string()).collect(); for part in r.split('\t') { directed.insert(part.to_string(), ws.clone()); } r.to_string() }
        None => l.clone() }).collect();
    let gen_rules: Vec<String> = pool.iter().filter(|l| !l.contains('\t')).cloned().collect();
    let gen_pairs: Vec<(String, String)> = pool.iter().filter_map(|l| l.split_once('\t').map(|(a, b)| (a.to_string(), b.to_string()))).collect();
    Corpus { test_rules: strs(&c["test_rules"]), test_words: strs(&c["test_words"]), ie, ie_words: strs(&c["ie_words"]),
             ie_into: strs(&c["ie_alias"]["into"]), ie_from: strs(&c["ie_alias"]["from"]), gen_rules, gen_pairs, directed }
}

pub struct Intern { words: HashMap<String, i64>, errs: HashMap<String, i64> }
impl Intern {
    pub fn new() -> Self { Intern { words: HashMap::new(), errs: HashMap::new() } }
    pub fn word(&mut self, w: &v::Word) -> i64 {
        let key = word_json_raw(w).to_string();
        let n = self.words.len() as i64;
        *self.words.entry(key).or_insert(n)
    }
    pub fn err(&mut self, e: &asca::Error) -> i64 {
        let n = -(self.errs.len() as i64) - 1;
        *self.errs.entry(err_key(e)).or_insert(n)
    }
}

fn events_json(evs: &[Event], it: &mut Intern) -> Vec<Value> {
    let mut out = Vec::new();
    for e in evs {
        match e {
            Event::RunPhrase => out.push(json!(["RP"])),
            Event::RunWord { word } => out.push(json!(["RW", it.word(word)])),
            Event::RunGroup => out.push(json!(["RG"])),
            Event::RunApply { before } => out.push(json!(["RA", it.word(before)])),
            Event::RunApplied { after } => out.push(json!(["RD", it.word(after)])),
            Event::RunWordEnd { word } => out.push(json!(["RE", it.word(word)])),
            Event::TraceGroup => out.push(json!(["TG"])),
            Event::TraceWord { index } => out.push(json!(["TW", index])),
            Event::TraceApply { before } => out.push(json!(["TA", it.word(before)])),
            Event::TraceApplied { after } => out.push(json!(["TD", it.word(after)])),
            Event::TraceSnapshot { changed } => out.push(json!(["TS", changed])),
            _ => {}
        }
    }
    out
}

/// one workload item: groups, aliases, lines
pub struct Item { pub groups: Vec<RuleGroup>, pub into: Vec<String>, pub lines: Vec<String> }

pub fn gen_item(c: &Corpus, rng: &mut Rng) -> Item {
    if !c.ie.is_empty() && rng.chance(1, 4) {
        let f = rng.pick(&c.ie);
        let n = 1 + rng.below(4.min(f.len()));
        let start = rng.below(f.len() - n + 1);
        let mut lines = Vec::new();
        for _ in 0..(2 + rng.below(4)) {
            let mut l = rng.pick(&c.ie_words).clone();
            if rng.chance(1, 4) { l = format!("{} {}", l, rng.pick(&c.ie_words)); }
            lines.push(l);
        }
        Item { groups: f[start..start + n].to_vec(), into: c.ie_into.clone(), lines }
    } else {
        let ng = 1 + rng.below(4);
        let mut groups = Vec::new();
        for gi in 0..ng {
            let nr = rng.below(4);
            let mut rules = Vec::new();
            for _ in 0..nr {
                let pool = if !c.gen_rules.is_empty() && rng.chance(1, 2) { &c.gen_rules } else { &c.test_rules };
                rules.push(rng.pick(pool).clone());
            }
            if rng.chance(1, 8) { rules.push(";; just a comment".into()); }
            if rng.chance(1, 8) { rules.push("".into()); }
            groups.push(RuleGroup { name: format!("g{gi}"), rule: rules, description: String::new() });
        }
        let mut pool: Vec<String> = c.test_words.clone();
        for g in &groups { for r in &g.rule { if let Some(ws) = c.directed.get(r) { for _ in 0..6 { pool.extend(ws.iter().cloned()); } } } }
        let mut lines = Vec::new();
        for _ in 0..(2 + rng.below(5)) {
            let mut l = rng.pick(&pool).clone();
            if rng.chance(1, 4) { l = format!("{} {}", l, rng.pick(&pool)); }
            lines.push(l);
        }
        // notation twins: the same word typed in americanist and in IPA notation (equal sounds, different spelling of the result)
        if rng.chance(1, 5) {
            const TWINS: [(&str, &str); 5] = [("¢a", "t͡sa"), ("ła.ta", "ɬa.ta"), ("ña", "ɲa"), ("aƛ", "at͡ɬ"), ("λo", "d͡ɮo")];
            let (a, b) = *rng.pick(&TWINS[..]);
            let (x, y) = if rng.chance(1, 2) { (a, b) } else { (b, a) };
            if rng.chance(1, 2) { let i = rng.below(lines.len() - 1); lines[i] = x.to_string(); lines[i + 1] = y.to_string(); } else { let i = rng.below(lines.len()); lines[i] = format!("{x} {y}"); }
        }
        Item { groups, into: vec![], lines }
    }
}

fn ids_of(phrases: &[asca::Phrase], it: &mut Intern) -> Vec<Vec<i64>> {
    phrases.iter().map(|p| p.iter().map(|w| it.word(w)).collect()).collect()
}

/// records `n` workload items into `out` (ints only, for TLC) and `out`.meta (texts, for humans)
pub fn record(out: &str, n: usize, seed: u64) {
    let c = load_corpus();
    let mut rng = Rng::new(seed);
    let mut f = std::io::BufWriter::new(std::fs::File::create(out).unwrap());
    let mut meta = std::io::BufWriter::new(std::fs::File::create(format!("{out}.meta")).unwrap());
    let mut sum = Summary::default();
    let mut made = 0usize;
    let mut attempts = 0usize;
    while made < n && attempts < n * 20 {
        attempts += 1;
        let item = gen_item(&c, &mut rng);
        let Ok(aliases) = v::parse_aliases(&item.into, &[]) else { continue };
        let Ok(rules) = v::parse_rules(&item.groups) else { sum.count("items_with_rule_syntax_error", 1); continue };
        let Ok(phrases) = v::parse_phrases(&item.lines, &aliases) else { sum.count("items_with_word_error", 1); continue };
        if phrases.iter().any(|p| p.iter().any(|w| w.syllables.is_empty())) { continue; }
        let mut it = Intern::new();
        let mut calls = Vec::new();
        let mut total_events = 0usize;
        let mut do_run = |ps: &[asca::Phrase], it: &mut Intern, calls: &mut Vec<Value>| {
            let input = ids_of(ps, it);
            let rec = crate::util::rec(60_000, true, false, || v::run_loop(&rules, ps));
            let ret = match &rec.result {
                Ok(Ok(res)) => json!({"ok": true, "out": ids_of(res, it)}),
                Ok(Err(e)) => json!({"ok": false, "err": it.err(e)}),
                Err(p) => json!({"ok": false, "err": -900, "panic": panic_msg(p)}),
            };
            let ev = events_json(&rec.events, it);
            let n = ev.len();
            calls.push(json!({"kind": "run", "input": input, "events": ev, "ret": ret}));
            n
        };
        // the list, a permutation of it, every line alone
        total_events += do_run(&phrases, &mut it, &mut calls);
        let mut perm: Vec<asca::Phrase> = phrases.clone();
        for i in (1..perm.len()).rev() { let j = rng.below(i + 1); perm.swap(i, j); }
        total_events += do_run(&perm, &mut it, &mut calls);
        for p in &phrases { total_events += do_run(std::slice::from_ref(p), &mut it, &mut calls); }
        // the tracer on every line
        for p in &phrases {
            let input: Vec<i64> = p.iter().map(|w| it.word(w)).collect();
            let rec = crate::util::rec(60_000, true, false, || v::trace_loop(&rules, p));
            let ret = match &rec.result {
                Ok(Ok(ch)) => json!({"ok": true, "changes": ch.iter().map(|c| json!([c.rule_index, c.after.iter().map(|w| it.word(w)).collect::<Vec<_>>()])).collect::<Vec<_>>()}),
                Ok(Err(e)) => json!({"ok": false, "err": it.err(e)}),
                Err(p) => json!({"ok": false, "err": -900, "panic": panic_msg(p)}),
            };
            let ev = events_json(&rec.events, &mut it);
            total_events += ev.len();
            calls.push(json!({"kind": "trace", "input": input, "events": ev, "ret": ret}));
        }
        made += 1;
        sum.vectors += calls.len() as u64;
        sum.count("events", total_events as u64);
        if total_events > 0 { sum.nontrivial += 1; }
        writeln!(f, "{}", json!({"id": made, "shape": rules.shape(), "calls": calls})).unwrap();
        writeln!(meta, "{}", json!({"id": made, "groups": item.groups.iter().map(|g| g.rule.clone()).collect::<Vec<_>>(), "into": item.into.len(), "lines": item.lines})).unwrap();
        if made <= 3 { sum.sample(|| json!({"groups": item.groups.iter().map(|g| g.rule.clone()).collect::<Vec<_>>(), "lines": item.lines, "calls": calls.len(), "events": total_events})); }
    }
    sum.agree = sum.vectors;
    sum.count("items", made as u64);
    sum.print();
}

// ------------------------------------------------------------------------------------------------
// S->I: schedules chosen by TLC (GEN_Pipeline), instantiated with real rules and words

fn run_keyed(groups: &[RuleGroup], lines: &[String], into: &[String]) -> Result<Vec<String>, String> {
    let (g, l, i) = (groups.to_vec(), lines.to_vec(), into.to_vec());
    let rec = crate::util::rec(30_000, false, false, move || asca::run(&g, &l, &i, &[]));
    match rec.result {
        Ok(Ok(v)) => Ok(v),
        Ok(Err(e)) => Err(err_key(&e)),
        Err(p) => if p.downcast_ref::<v::BudgetExhausted>().is_some() { Err("BUDGET".to_string()) } else { Err(format!("PANIC {}", panic_text(&p))) },
    }
}
/// a call that ran out of its step budget is C02's business (open findings there); comparisons involving one are counted, not judged
fn budgeted(r: &Result<Vec<String>, String>) -> bool { matches!(r, Err(e) if e == "BUDGET" || e.starts_with("PANIC")) }     // panics likewise: C02 decides them

fn group_by(rules: &[String], sizes: &[usize]) -> Vec<RuleGroup> {
    let mut out = Vec::new();
    let mut i = 0;
    for (gi, s) in sizes.iter().enumerate() {
        out.push(RuleGroup { name: format!("G{gi}"), rule: rules[i..i + s].to_vec(), description: String::new() });
        i += s;
    }
    out
}

const AMERICANIST: [char; 5] = ['¢', 'ƛ', 'λ', 'ł', 'ñ'];
pub const EXOTIC: [&str; 14] = ["tã", "ẽ.na", "kɚ", "sǝ.ma", "ℏa.ta", "'ta.na", "ta:.ka", "t^sa", "pa;ta", "sĩ,na", "ɝn", "ꭤ.tℇ", "ℎa", "tõ.kũ"];

fn pick_rules(c: &Corpus, rng: &mut Rng, n: usize) -> (Vec<String>, Vec<String>, Vec<String>) {
    // returns (rules, into-aliases, word pool)
    if !c.ie.is_empty() && rng.chance(1, 4) {
        let f = rng.pick(&c.ie);
        let all: Vec<String> = f.iter().flat_map(|g| g.rule.clone()).collect();
        if all.len() >= n {
            let start = rng.below(all.len() - n + 1);
            return (all[start..start + n].to_vec(), c.ie_into.clone(), c.ie_words.clone());
        }
    }
    let mut rules = Vec::new();
    for _ in 0..n {
        let pool = if !c.gen_rules.is_empty() && rng.chance(1, 2) { &c.gen_rules } else { &c.test_rules };
        rules.push(rng.pick(pool).clone());
    }
    let mut words = c.test_words.clone();
    // words typed with the input spellings the manual allows besides plain IPA: precomposed letters and look-alikes that the library normalises,
    // ASCII stress / length / tie marks (every entry point - run, trace_changes, get_trace_string - must read them alike)
    for w in EXOTIC { words.push(w.to_string()); }
    if n >= 2 && !c.gen_pairs.is_empty() && rng.chance(1, 2) {
        // an observer pair: the later rule reads what the earlier one wrote; on words of the generator's inventory
        let (a, b) = rng.pick(&c.gen_pairs).clone();
        let i = rng.below(n - 1);
        let j = i + 1 + rng.below(n - 1 - i);
        rules[i] = a; rules[j] = b;
        words = (0..40).map(|_| crate::laws::gen_word_text(rng, true)).collect();
    }
    for r in &rules { if let Some(ws) = c.directed.get(r) { for _ in 0..6 { words.extend(ws.iter().cloned()); } } }
    (rules, vec![], words)
}

pub fn replay_schedules() {
    let c = load_corpus();
    let inst = env_u64("VERIF_INSTANCES", 6) as usize;
    let seed = env_u64("VERIF_SEED", 1);
    let known: Vec<String> = std::env::var("VERIF_KNOWN").unwrap_or_default().split(',').map(|s| s.to_string()).collect();
    let mut sum = Summary::default();
    let tabs = crate::tables::load();
    let mut nvec = 0u64;
    let kinds = std::env::var("VERIF_KINDS").unwrap_or("c10,c11,c16".into());
    if kinds.contains("c10") {
        // the model-level counterexample of mc/MC_Stage (americanist flag lost across a text stage), reproduced on the real code
        for (a, plain) in [("¢", "k"), ("ƛ", "k"), ("λ", "g"), ("ł", "l"), ("ñ", "n")] {
            sum.vectors += 1; sum.nontrivial += 1;
            let rules = vec![format!("{a} > {plain}"), format!("{plain} > {a}")];
            let line = format!("{a}a");
            let mono = run_keyed(&[RuleGroup::from_rules(rules.clone())], &[line.clone()], &[]);
            let pre = run_keyed(&[RuleGroup::from_rules(rules[..1].to_vec())], &[line.clone()], &[]);
            let staged = match &pre { Ok(mid) => run_keyed(&[RuleGroup::from_rules(rules[1..].to_vec())], mid, &[]), Err(e) => Err(e.clone()) };
            if mono == staged { sum.agree += 1; } else {
                let case = json!({"kind": "c10", "rules": rules, "split": 1, "word": line, "mono": format!("{:?}", mono), "intermediate": format!("{:?}", pre), "staged": format!("{:?}", staged)});
                if known.iter().any(|k| k == "C10-KF1") { sum.known("C10-KF1", || case); } else { sum.mismatch(case); }
            }
        }
    }
    replay_stdin(|vec| {
        nvec += 1;
        if !kinds.contains(vec["kind"].as_str().unwrap()) { return; }
        let kind = vec["kind"].as_str().unwrap().to_string();
        let n = vec["n"].as_u64().unwrap() as usize;
        let usizes = |x: &Value| x.as_array().map(|a| a.iter().map(|v| v.as_u64().unwrap() as usize).collect::<Vec<_>>()).unwrap_or_default();
        for ii in 0..inst {
            let mut rng = Rng::new(seed.wrapping_mul(1_000_003).wrapping_add(nvec * 131 + ii as u64));
            sum.vectors += 1;
            match kind.as_str() {
                "c10" => {
                    let (rules, into, words) = pick_rules(&c, &mut rng, n);
                    let k = vec["k"].as_u64().unwrap() as usize;
                    let g1 = group_by(&rules, &usizes(&vec["sizes"]));
                    let g2 = group_by(&rules, &usizes(&vec["sizes2"]));
                    let line = rng.pick(&words).clone();
                    let lines = vec![line.clone()];
                    let mono = run_keyed(&g1, &lines, &into);
                    let regrouped = run_keyed(&g2, &lines, &into);
                    let pre = run_keyed(&[RuleGroup::from_rules(rules[..k].to_vec())], &lines, &into);
                    // guard of the property: the intermediate output is renderable (no replacement character) and not empty.
                    // An intermediate word that does not read back as itself for a reason listed under C09's open findings is counted, not judged.
                    if let Ok(mid) = &pre {
                        if mid.iter().any(|s| s.contains('\u{FFFD}') || s.trim().is_empty()) { sum.count("c10_unrenderable_intermediate", 1); continue; }
                        let (r2, l2, i2) = (rules[..k].to_vec(), line.clone(), into.clone());
                        let tb = &tabs;
                        let guard = crate::util::rec(30_000, false, false, move || -> Result<bool, asca::Error> {
                            let al = v::parse_aliases(&i2, &[])?;
                            let rs = v::parse_rules(&[RuleGroup::from_rules(r2)])?;
                            let mut c09 = false;
                            for w in l2.split(' ') {
                                let w0 = v::parse_word(w, &al)?;
                                let midw = v::apply_structural(&rs, w0.clone())?.last().map(|s| s.word.clone()).unwrap_or(w0);
                                c09 |= crate::textrec::kf1_collides(&midw, tb) || crate::textrec::kf2_joins(&midw, tb);
                            }
                            Ok(c09)
                        });
                        if matches!(guard.result, Ok(Ok(true))) { sum.count("c10_intermediate_hits_open_C09_finding", 1); continue; }
                    }
                    let staged = match &pre {
                        Ok(mid) if mid.iter().any(|s| s.contains('\u{FFFD}')) => { sum.count("c10_unrenderable_intermediate", 1); continue; }
                        Ok(mid) => run_keyed(&[RuleGroup::from_rules(rules[k..].to_vec())], mid, &[]),
                        Err(e) => Err(e.clone()),
                    };
                    if budgeted(&mono) || budgeted(&regrouped) || budgeted(&staged) || budgeted(&pre) { sum.count("panic_or_step_budget (C02's domain)", 1); continue; }
                    if mono.as_ref().map(|m| m[0] != line).unwrap_or(true) { sum.nontrivial += 1; }
                    if mono == regrouped && mono == staged { sum.agree += 1; if sum.vectors % 211 == 0 { sum.sample(|| json!({"kind": "c10", "rules": rules, "split": k, "word": line, "result": format!("{:?}", mono)})); } }
                    else {
                        let case = json!({"kind": "c10", "rules": rules, "sizes": vec["sizes"], "sizes2": vec["sizes2"], "split": k, "word": line, "mono": format!("{:?}", mono),
                                          "regrouped": format!("{:?}", regrouped), "intermediate": format!("{:?}", pre), "staged": format!("{:?}", staged)});
                        let amer = mono == regrouped && line.chars().any(|ch| AMERICANIST.contains(&ch));
                        if amer && known.iter().any(|k| k == "C10-KF1") { sum.known("C10-KF1", || case); } else { sum.mismatch(case); }
                    }
                }
                "c11" => {
                    let ng = 1 + rng.below(3);
                    let extra = rng.below(3);
                    let (rules, into, words) = pick_rules(&c, &mut rng, ng + extra);
                    let mut sizes = vec![0usize; ng];
                    for _ in 0..rules.len() { sizes[rng.below(ng)] += 1; }
                    let groups = group_by(&rules, &sizes);
                    let mut lines: Vec<String> = (0..n).map(|_| { let mut l = rng.pick(&words).clone(); if rng.chance(1, 3) { l = format!("{} {}", l, rng.pick(&words)); } l }).collect();
                    // the library keeps a leading blank and doubled blanks of a line (they delimit empty words): such lines are lines too
                    for l in lines.iter_mut() { if rng.chance(1, 8) { *l = format!(" {l}"); } else if l.contains(' ') && rng.chance(1, 6) { *l = l.replacen(' ', "  ", 1); } }
                    // notation twins: the same word typed in americanist and in IPA notation, next to each other (in one line or in adjacent lines)
                    if into.is_empty() && rng.chance(1, 4) {
                        const TWINS: [(&str, &str); 5] = [("¢a", "t͡sa"), ("ła.ta", "ɬa.ta"), ("ña", "ɲa"), ("aƛ", "at͡ɬ"), ("λo", "d͡ɮo")];
                        let (a, b) = *rng.pick(&TWINS[..]);
                        let (x, y) = if rng.chance(1, 2) { (a, b) } else { (b, a) };
                        if n >= 2 && rng.chance(1, 2) { let i = rng.below(n - 1); lines[i] = x.to_string(); lines[i + 1] = y.to_string(); } else { let i = rng.below(n); lines[i] = format!("{x} {y}"); }
                    }
                    let full = run_keyed(&groups, &lines, &into);
                    let singles: Vec<Result<Vec<String>, String>> = lines.iter().map(|l| run_keyed(&groups, &[l.clone()], &into)).collect();
                    let perm: Vec<usize> = usizes(&vec["perm"]).iter().map(|p| p - 1).collect();
                    let permuted: Vec<String> = perm.iter().map(|p| lines[*p].clone()).collect();
                    let pfull = run_keyed(&groups, &permuted, &into);
                    let mask: Vec<bool> = vec["mask"].as_array().unwrap().iter().map(|b| b.as_bool().unwrap()).collect();
                    let sub: Vec<String> = lines.iter().zip(&mask).filter(|(_, m)| **m).map(|(l, _)| l.clone()).collect();
                    let sfull = run_keyed(&groups, &sub, &into);
                    // expectation from the singletons
                    let expect = |ls: &[String], ss: &[&Result<Vec<String>, String>]| -> Result<Vec<String>, String> {
                        // phase order: alias/word syntax of ANY line before rule syntax before runtime errors in line order
                        let _ = ls;
                        for cls in ["AliasSyn", "AliasRun", "WordSyn", "WordRun", "RuleSyn"] {
                            for s in ss { if let Err(e) = s { if e.starts_with(cls) { return Err(e.clone()); } } }
                        }
                        let mut out = Vec::new();
                        for s in ss { match s { Ok(v) => out.push(v[0].clone()), Err(e) => return Err(e.clone()) } }
                        Ok(out)
                    };
                    let all: Vec<&Result<Vec<String>, String>> = singles.iter().collect();
                    let e_full = expect(&lines, &all);
                    let e_perm = expect(&permuted, &perm.iter().map(|p| &singles[*p]).collect::<Vec<_>>());
                    let e_sub = expect(&sub, &singles.iter().zip(&mask).filter(|(_, m)| **m).map(|(s, _)| s).collect::<Vec<_>>());
                    // a line `u v` is its words transformed individually and joined by single spaces
                    let mut multi_ok = true;
                    let mut multi_case = Value::Null;
                    for (l, s) in lines.iter().zip(&singles) {
                        if l.contains(' ') { if let Ok(v1) = s {
                            let parts: Vec<Result<Vec<String>, String>> = l.split(' ').map(|w| run_keyed(&groups, &[w.to_string()], &into)).collect();
                            if parts.iter().all(|p| p.is_ok()) {
                                let joined = parts.iter().map(|p| p.as_ref().unwrap()[0].clone()).collect::<Vec<_>>().join(" ");
                                if joined != v1[0] { multi_ok = false; multi_case = json!({"line": l, "joined": joined, "whole": v1[0]}); }
                            } else { multi_ok = false; multi_case = json!({"line": l, "parts": format!("{:?}", parts), "whole": v1[0]}); }
                        } }
                    }
                    if budgeted(&full) || budgeted(&pfull) || budgeted(&sfull) || singles.iter().any(budgeted) { sum.count("panic_or_step_budget (C02's domain)", 1); continue; }
                    if full.as_ref().map(|f| f != &lines).unwrap_or(true) { sum.nontrivial += 1; }
                    if full == e_full && pfull == e_perm && sfull == e_sub && multi_ok && full.as_ref().map(|f| f.len() == lines.len()).unwrap_or(true) { sum.agree += 1;
                        if sum.vectors % 223 == 0 { sum.sample(|| json!({"kind": "c11", "groups": groups.iter().map(|g| g.rule.clone()).collect::<Vec<_>>(), "lines": lines, "perm": perm, "result": format!("{:?}", full)})); } }
                    else { sum.mismatch(json!({"kind": "c11", "groups": groups.iter().map(|g| g.rule.clone()).collect::<Vec<_>>(), "lines": lines, "perm": perm, "mask": mask,
                                               "full": format!("{:?}", full), "expected_full": format!("{:?}", e_full), "permuted": format!("{:?}", pfull), "expected_permuted": format!("{:?}", e_perm),
                                               "sub": format!("{:?}", sfull), "expected_sub": format!("{:?}", e_sub), "multi": multi_case})); }
                    // every ordered pair of a handful of words (those assembled from the rules' own elements among them): whatever a word leaves behind
                    // in the interpreter must not reach the next one, whichever word that is
                    if rng.chance(1, 3) {
                        let pool: Vec<String> = (0..6).map(|_| rng.pick(&words).clone()).filter(|w| !w.contains(' ')).collect();
                        let single: Vec<Result<Vec<String>, String>> = pool.iter().map(|w| run_keyed(&groups, &[w.clone()], &into)).collect();
                        if single.iter().all(|r| r.is_ok()) {
                            for a in 0..pool.len() { for b in 0..pool.len() {
                                if a == b { continue; }
                                let both = run_keyed(&groups, &[pool[a].clone(), pool[b].clone()], &into);
                                if budgeted(&both) { continue; }
                                sum.vectors += 1; sum.count("ordered_pairs", 1);
                                let exp: Result<Vec<String>, String> = Ok(vec![single[a].as_ref().unwrap()[0].clone(), single[b].as_ref().unwrap()[0].clone()]);
                                if both == exp { sum.agree += 1; }
                                else { sum.mismatch(json!({"kind": "c11-pair", "groups": groups.iter().map(|g| g.rule.clone()).collect::<Vec<_>>(), "lines": [pool[a], pool[b]], "together": format!("{:?}", both), "alone": format!("{:?}", exp)})); }
                            } }
                        }
                    }
                }
                _ => {
                    let (rules, into, words) = pick_rules(&c, &mut rng, n);
                    let groups = group_by(&rules, &usizes(&vec["sizes"]));
                    let kw = vec["k"].as_u64().unwrap() as usize;
                    let phrase = (0..kw).map(|_| rng.pick(&words).clone()).collect::<Vec<_>>().join(" ");
                    let (g, p, i) = (groups.clone(), phrase.clone(), into.clone());
                    let rec = crate::util::rec(30_000, false, false, move || asca::trace_changes(&g, p, &i).map(|ch| ch.iter().map(|c| (c.rule_index, c.after.iter().map(|w| v::render_word(w, &v::no_aliases())).collect::<Vec<_>>().join(" "))).collect::<Vec<_>>()));
                    let (g, p, i) = (groups.clone(), phrase.clone(), into.clone());
                    let rec2 = crate::util::rec(30_000, false, false, move || asca::get_trace_string(&g, p, &i));
                    let runs: Vec<Result<Vec<String>, String>> = (0..=groups.len()).map(|m| run_keyed(&groups[..m], &[phrase.clone()], &into)).collect();
                    let full = runs.last().unwrap().clone();
                    let tracer_budget = rec.result.is_err() || rec2.result.is_err();      // the tracer panicked or ran out of budget: C02's domain
                    if runs.iter().any(budgeted) || tracer_budget { sum.count("panic_or_step_budget (C02's domain)", 1); continue; }
                    let mut problems: Vec<String> = Vec::new();
                    match (&rec.result, &rec2.result) {
                        (Ok(Ok(changes)), Ok(Ok(strs))) => {
                            if full.is_err() { problems.push("tracer succeeds but run fails".into()); }
                            else {
                                let mut last = -1i64;
                                for (gi, after) in changes {
                                    if (*gi as i64) <= last { problems.push("indices not strictly increasing".into()); }
                                    last = *gi as i64;
                                    match (&runs[*gi + 1], &runs[*gi]) {
                                        (Ok(a), Ok(b)) => { if a[0] != *after { problems.push(format!("state after group {gi} is {after:?}, run of groups 0..={gi} gives {:?}", a[0])); }
                                                            if a[0] == b[0] { problems.push(format!("group {gi} reported but rendered result unchanged")); } }
                                        _ => problems.push("prefix run fails".into()),
                                    }
                                }
                                for gi in 0..groups.len() {
                                    if !changes.iter().any(|(x, _)| *x == gi) { if let (Ok(a), Ok(b)) = (&runs[gi + 1], &runs[gi]) { if a[0] != b[0] { problems.push(format!("group {gi} changes the phrase but is not reported")); } } }
                                }
                                let last_state = changes.last().map(|(_, a)| a.clone());
                                if let Ok(f) = &full { if let Some(ls) = &last_state { if *ls != f[0] { problems.push("last reported state differs from run".into()); } } }
                                // the printed trace is the same sequence
                                if strs.len() != 2 * changes.len() { problems.push(format!("get_trace_string prints {} lines for {} changes", strs.len(), changes.len())); }
                                else { for (ci, (gi, after)) in changes.iter().enumerate() {
                                    if strs[2 * ci] != format!("Applied \"{}\":", groups[*gi].name) { problems.push(format!("trace string names {:?} for group {gi}", strs[2 * ci])); }
                                    if !strs[2 * ci + 1].trim_end().ends_with(&format!("=> {after}")) { problems.push(format!("trace string line {:?} does not end in the state {after:?}", strs[2 * ci + 1])); }
                                } }
                            }
                            if !changes.is_empty() { sum.nontrivial += 1; }
                        }
                        (Ok(Err(_)), Ok(Err(_))) => { if full.is_ok() { problems.push("tracer fails but run succeeds".into()); } }
                        (Err(p), _) | (_, Err(p)) => problems.push(format!("panic: {}", panic_msg(p))),
                        _ => problems.push("trace_changes and get_trace_string disagree on success".into()),
                    }
                    // a unrenderable word makes rendered comparison meaningless
                    if runs.iter().any(|r| r.as_ref().map(|v| v[0].contains('\u{FFFD}')).unwrap_or(false)) { sum.count("c16_unrenderable", 1); continue; }
                    if problems.is_empty() { sum.agree += 1; if sum.vectors % 227 == 0 { sum.sample(|| json!({"kind": "c16", "groups": groups.iter().map(|g| g.rule.clone()).collect::<Vec<_>>(), "phrase": phrase, "run": format!("{:?}", full)})); } }
                    else { sum.mismatch(json!({"kind": "c16", "groups": groups.iter().map(|g| g.rule.clone()).collect::<Vec<_>>(), "phrase": phrase, "problems": problems, "runs": format!("{:?}", runs)})); }
                }
            }
        }
    });
    sum.print();
}
