//! C20 replay: project configs chosen by TLC (GEN_Seq) are materialised with real rule files and run through the real
//! `asca seq` / `asca conv tag`; results are compared with the plan of spec/Seq.tla executed through asca::run.
use asca::RuleGroup;
use crate::cli::Bin;
use crate::util::*;
use serde_json::{json, Value};
use std::path::Path;

// a group's rules are separated by `;` here; in the file they stand on lines of their own with an EMPTY LINE between them
// (doc-cli: empty lines inside a group's rule list are allowed; only after a description does an empty line end the group)
// the groups of the first file do not commute (Alpha feeds Beta and Gamma, Beta bleeds Gamma), so a selection delivered in another order is visible
const FILES: [&[(&str, &str)]; 3] = [
    &[("Alpha", "a > e;p > b / #_"), ("Beta", "e > i / _#"), ("Gamma", "t > d / V_e")],
    &[("One", "k > g / V_V;m > n / _#"), ("Two", "i > u / _#")],
    &[("Solo", "s > z / V_V")],
];
const OWN: [&[&str]; 4] = [&["pata", "kasi te", "tika"], &["sake", "atasi"], &["mati ka"], &["tete", "isa"]];
const EXTRA: [&[&str]; 4] = [&["loan.a"], &["sasa", "ki"], &["neo"], &["ata"]];

fn group(file: usize, g: usize) -> RuleGroup { let (n, r) = FILES[file - 1][g - 1]; RuleGroup { name: n.to_string(), rule: r.split(';').map(|x| x.to_string()).collect(), description: String::new() } }
fn filter_name(file: usize, n: u64) -> String {
    let base = (n % 100) as usize;
    let name = if base >= 1 && base <= FILES[file - 1].len() { FILES[file - 1][base - 1].0.to_string() } else { "Nonexistent".to_string() };
    if n >= 100 { name.to_uppercase() } else if base % 2 == 0 { name.to_lowercase() } else { name }
}

fn write_project(dir: &Path, v: &Value) {
    for (k, groups) in FILES.iter().enumerate() {
        let mut s = String::new();
        for (name, rule) in groups.iter() { s.push_str(&format!("@ {name}\n    {}\n# {name} does its thing\n", rule.split(';').collect::<Vec<_>>().join("\n\n    "))); }
        std::fs::write(dir.join(format!("f{}.rsca", k + 1)), s).unwrap();
    }
    let n = v["n"].as_u64().unwrap() as usize;
    for t in 1..=n {
        std::fs::write(dir.join(format!("w{t}.wsca")), OWN[t - 1].join("\n")).unwrap();
        std::fs::write(dir.join(format!("x{t}.wsca")), EXTRA[t - 1].join("\n")).unwrap();
    }
    let mut conf = String::from("# generated project\n");
    for d in v["decl"].as_array().unwrap() {
        let t = d.as_u64().unwrap() as usize;
        let c = &v["conf"][t - 1];
        let from = c["from"].as_u64().unwrap() as usize;
        let mut line = format!("@t{t}");
        if from == n + 1 { line.push_str(" %nosuch"); } else if from != 0 { line.push_str(&format!(" %t{from}")); }
        if from == 0 { line.push_str(&format!(" [\"w{t}\"]")); } else if v["extra"][t - 1].as_bool().unwrap() { line.push_str(&format!(" [\"x{t}\"]")); }
        line.push_str(":\n");
        let nent = c["nent"].as_u64().unwrap() as usize;
        for e in 0..nent {
            let ent = &v["ents"][t - 1][e];
            let file = ent["file"].as_u64().unwrap() as usize;
            let f = &v["filters"][ent["filt"].as_u64().unwrap() as usize - 1];
            let mut part = format!("    \"f{file}\"");
            let kind = f[0].as_str().unwrap();
            if kind != "none" {
                let names: Vec<String> = f[1].as_array().unwrap().iter().map(|x| format!("\"{}\"", filter_name(file, x.as_u64().unwrap()))).collect();
                part.push_str(&format!(" {} {{{}}}", if kind == "only" { "~" } else { "!" }, names.join(", ")));
            }
            line.push_str(&part);
            line.push_str(if e + 1 < nent { ",\n" } else { "\n" });
        }
        conf.push_str(&line);
        conf.push('\n');
    }
    std::fs::write(dir.join("project.asca"), conf).unwrap();
}

/// the plan executed with the library: words of tag t after all its entries; None if some stage fails
fn expected(v: &Value, t: usize, memo: &mut Vec<Option<Option<Vec<String>>>>) -> Option<Vec<String>> {
    if let Some(r) = &memo[t] { return r.clone(); }
    let c = &v["conf"][t - 1];
    let from = c["from"].as_u64().unwrap() as usize;
    let mut words: Vec<String> = if from == 0 { OWN[t - 1].iter().map(|s| s.to_string()).collect() } else {
        let mut w = expected(v, from, memo)?;
        if v["extra"][t - 1].as_bool().unwrap() { w.push(String::new()); w.extend(EXTRA[t - 1].iter().map(|s| s.to_string())); }
        w
    };
    for ent in v["plan"][t - 1]["entries"].as_array().unwrap() {
        let file = ent["file"].as_u64().unwrap() as usize;
        let groups: Vec<RuleGroup> = ent["groups"].as_array().unwrap().iter().map(|g| group(file, g.as_u64().unwrap() as usize)).collect();
        match asca::run(&groups, &words, &[], &[]) { Ok(o) => words = o, Err(_) => { memo[t] = Some(None); return None; } }
    }
    memo[t] = Some(Some(words.clone()));
    Some(words)
}

fn read_single_out(dir: &Path, t: usize) -> Result<Vec<String>, String> {
    let d = dir.join("out").join(format!("t{t}"));
    let files: Vec<_> = std::fs::read_dir(&d).map_err(|e| format!("no out/t{t}: {e}"))?.filter_map(|e| e.ok()).collect();
    if files.len() != 1 { return Err(format!("{} files in out/t{t}", files.len())); }
    let s = std::fs::read_to_string(files[0].path()).map_err(|e| e.to_string())?;
    Ok(s.split('\n').map(|x| x.to_string()).collect())
}

pub fn replay() {
    let mut bin = Bin::new();
    let seed = env_u64("VERIF_SEED", 1);
    let mut rng = Rng::new(seed ^ 0x20);
    let mut sum = Summary::default();
    replay_stdin(|v| {
        sum.vectors += 1;
        let n = v["n"].as_u64().unwrap() as usize;
        let dir = bin.case_dir();
        write_project(&dir, &v);
        let valid = v["valid"].as_bool().unwrap();
        let ferr = v["filter_error"].as_bool().unwrap();
        let mut problems: Vec<String> = Vec::new();
        let (rc, _out, err) = bin.run(&dir, &["seq", ".", "-o", "-y"]);
        if rc == -2 { problems.push("asca seq did not finish within 20 s".into()); }
        if !valid || ferr {
            sum.count(if !valid { "rejected_configs" } else { "filter_errors" }, 1);
            if rc == 0 { problems.push(format!("config is {} but asca seq exited with status 0", if !valid { if v["acyclic"].as_bool().unwrap() { "dangling" } else { "cyclic" } } else { "naming a rule group that does not exist" })); }
        } else {
            sum.nontrivial += 1;
            if rc != 0 { problems.push(format!("valid config rejected (exit {rc}): {}", err.trim().chars().take(300).collect::<String>())); }
            let mut memo = vec![None; n + 1];
            for t in 1..=n {
                match (expected(&v, t, &mut memo), read_single_out(&dir, t)) {
                    (Some(e), Ok(g)) => if e != g { problems.push(format!("out/t{t}: wrote {:?}, the composition of the stages gives {:?}", g, e)); },
                    (Some(e), Err(x)) => problems.push(format!("out/t{t}: {x}; expected {:?}", e)),
                    (None, _) => {}
                }
            }
            // a single tag, in a fresh output tree
            let t = 1 + rng.below(n);
            let _ = std::fs::remove_dir_all(dir.join("out"));
            let (rc2, _, err2) = bin.run(&dir, &["seq", ".", "-t", &format!("t{t}"), "-o", "-y"]);
            match (expected(&v, t, &mut memo), read_single_out(&dir, t)) {
                (Some(e), Ok(g)) => if e != g { problems.push(format!("-t t{t}: wrote {:?}, expected {:?}", g, e)); },
                (Some(_), Err(x)) => problems.push(format!("-t t{t}: {x} (exit {rc2}: {})", err2.trim().chars().take(200).collect::<String>())),
                (None, _) => {}
            }
            // conv tag --recurse exports the concatenated rule history and the root's words
            let (rc3, _, err3) = bin.run(&dir, &["conv", "tag", "-p", ".", &format!("t{t}"), "-r", "-o", "hist.json"]);
            match std::fs::read_to_string(dir.join("hist.json")).ok().and_then(|s| serde_json::from_str::<Value>(&s).ok()) {
                Some(j) => {
                    let mut names: Vec<String> = Vec::new();
                    let chain: Vec<usize> = v["plan"][t - 1]["chain"].as_array().unwrap().iter().map(|x| x.as_u64().unwrap() as usize).collect();
                    for c in &chain { for ent in v["plan"][c - 1]["entries"].as_array().unwrap() { let f = ent["file"].as_u64().unwrap() as usize; for g in ent["groups"].as_array().unwrap() { names.push(FILES[f - 1][g.as_u64().unwrap() as usize - 1].0.to_string()); } } }
                    let got: Vec<String> = j["rules"].as_array().unwrap().iter().map(|r| r["name"].as_str().unwrap().to_string()).collect();
                    if got != names { problems.push(format!("conv tag -r t{t}: rule history {:?}, the chain gives {:?}", got, names)); }
                    let root = chain[0];
                    let rootw: Vec<String> = OWN[root - 1].iter().map(|s| s.to_string()).collect();
                    if j["words"] != json!(rootw) { problems.push(format!("conv tag -r t{t}: words {}, root words {:?}", j["words"], rootw)); }
                    // the words written for the tag equal one library run over the whole history (no extra word files on the way)
                    let no_extra = chain.iter().skip(1).all(|c| !v["extra"][c - 1].as_bool().unwrap());
                    if no_extra {
                        let groups: Vec<RuleGroup> = j["rules"].as_array().unwrap().iter().map(|r| RuleGroup { name: r["name"].as_str().unwrap().into(), rule: r["rule"].as_array().unwrap().iter().map(|x| x.as_str().unwrap().to_string()).collect(), description: String::new() }).collect();
                        if let (Ok(one), Some(e)) = (asca::run(&groups, &rootw, &[], &[]), expected(&v, t, &mut memo)) { if one != e { problems.push(format!("one run over the exported history gives {:?}, the staged project gives {:?}", one, e)); } }
                    }
                }
                None => problems.push(format!("conv tag -r wrote no json (exit {rc3}): {}", err3.trim().chars().take(200).collect::<String>())),
            }
        }
        let _ = std::fs::remove_dir_all(&dir);
        if problems.is_empty() { sum.agree += 1; if sum.vectors % 41 == 0 { sum.sample(|| json!({"conf": v["conf"], "decl": v["decl"], "valid": valid, "filter_error": ferr, "plan": v["plan"]})); } }
        else { sum.mismatch(json!({"seed": v["seed"], "conf": v["conf"], "ents": v["ents"], "extra": v["extra"], "decl": v["decl"], "valid": valid, "filter_error": ferr, "problems": problems})); }
    });
    bin.cleanup();
    sum.print();
}
