//! Projections between the implementation's data and the specification's abstract values.
use asca::verif::{self as v, Segment, Word, NodeKind, StressKind};
use serde_json::{json, Value};

pub const NODES7: [NodeKind; 7] = [NodeKind::Root, NodeKind::Manner, NodeKind::Laryngeal, NodeKind::Labial, NodeKind::Coronal, NodeKind::Dorsal, NodeKind::Pharyngeal];
pub const KEYS7: [&str; 7] = ["rut", "man", "lar", "lab", "cor", "dor", "phr"];

/// the 26 features in the manual's order: (node index into NODES7, mask, spelling used when printing rules)
pub const FEATS: [(usize, u8, &str); 26] = [
    (0, 4, "cons"), (0, 2, "son"), (0, 1, "syll"),
    (1, 128, "cont"), (1, 64, "approx"), (1, 32, "lat"), (1, 16, "nas"), (1, 8, "dr"), (1, 4, "strid"), (1, 2, "rho"), (1, 1, "click"),
    (2, 4, "voi"), (2, 2, "sg"), (2, 1, "cg"),
    (3, 2, "ldental"), (3, 1, "rnd"), (4, 2, "ant"), (4, 1, "dist"),
    (5, 32, "fr"), (5, 16, "bk"), (5, 8, "hi"), (5, 4, "lo"), (5, 2, "tens"), (5, 1, "red"),
    (6, 2, "atr"), (6, 1, "rtr"),
];
/// node spellings, in the order root, manner, laryngeal, labial, coronal, dorsal, pharyngeal, place
pub const NODE_NAMES: [&str; 8] = ["root", "manner", "laryngeal", "labial", "coronal", "dorsal", "pharyngeal", "place"];

pub fn seg_arr(s: &Segment) -> [i64; 7] {
    let mut a = [0i64; 7];
    for (i, n) in NODES7.iter().enumerate() {
        a[i] = match s.get_node(*n) { Some(x) => x as i64, None => -1 };
    }
    a
}

pub fn seg_json(s: &Segment) -> Value {
    let a = seg_arr(s);
    json!({"rut": a[0], "man": a[1], "lar": a[2], "lab": a[3], "cor": a[4], "dor": a[5], "phr": a[6]})
}

pub fn seg_raw(s: &Segment) -> Value {
    json!([s.root, s.manner, s.laryngeal, match *s.place { Some(p) => p as i64, None => -1 }])
}

pub fn arr_seg(a: &[i64; 7]) -> Segment {
    let mut s = Segment::default();
    for (i, n) in NODES7.iter().enumerate() {
        s.set_node(*n, if a[i] < 0 { None } else { Some(a[i] as u8) });
    }
    s
}

pub fn json_seg(x: &Value) -> Segment {
    let mut a = [0i64; 7];
    if let Some(arr) = x.as_array() {
        for i in 0..7 { a[i] = arr[i].as_i64().unwrap(); }
    } else {
        for (i, k) in KEYS7.iter().enumerate() { a[i] = x[*k].as_i64().unwrap_or_else(|| panic!("bad segment json {x}")); }
    }
    arr_seg(&a)
}

pub fn stress_str(s: StressKind) -> &'static str {
    match s { StressKind::Primary => "P", StressKind::Secondary => "S", StressKind::Unstressed => "U" }
}

/// W = {"s":[{"g":[seg..],"st":"U"|"P"|"S","t":tone}], "am":bool}
pub fn word_json(w: &Word) -> Value {
    let syls: Vec<Value> = w.syllables.iter().map(|sy| {
        json!({"g": sy.segments.iter().map(seg_json).collect::<Vec<_>>(), "st": stress_str(sy.stress), "t": sy.tone})
    }).collect();
    json!({"s": syls, "am": v::is_americanist(w)})
}

pub fn word_json_raw(w: &Word) -> Value {
    let syls: Vec<Value> = w.syllables.iter().map(|sy| {
        json!({"g": sy.segments.iter().map(seg_json).collect::<Vec<_>>(), "raw": sy.segments.iter().map(seg_raw).collect::<Vec<_>>(), "st": stress_str(sy.stress), "t": sy.tone})
    }).collect();
    json!({"s": syls, "am": v::is_americanist(w)})
}

pub fn json_word(x: &Value) -> Word {
    let syls: Vec<(Vec<Segment>, u8, u16)> = x["s"].as_array().expect("word.s").iter().map(|sy| {
        let segs = sy["g"].as_array().expect("syl.g").iter().map(json_seg).collect();
        let st = match sy["st"].as_str().unwrap_or("U") { "P" => 1, "S" => 2, _ => 0 };
        (segs, st, sy["t"].as_u64().unwrap_or(0) as u16)
    }).collect();
    v::make_word(&syls, x["am"].as_bool().unwrap_or(false))
}

/// structural equality that also looks at the americanist flag when `am` is set
pub fn same_word(a: &Word, b: &Word) -> bool { a == b }

/// E = {"class":..., "variant":...}
pub fn err_json(e: &asca::Error) -> Value {
    let d = format!("{:?}", e);
    let class = d.split('(').next().unwrap_or("").to_string();
    let rest = &d[class.len()..];
    let variant: String = rest.trim_start_matches('(').chars().take_while(|c| c.is_alphanumeric() || *c == '_').collect();
    json!({"class": class, "variant": variant})
}

pub fn err_key(e: &asca::Error) -> String {
    let j = err_json(e);
    format!("{}::{}", j["class"].as_str().unwrap(), j["variant"].as_str().unwrap())
}

thread_local! { pub static LAST_PANIC: std::cell::RefCell<String> = const { std::cell::RefCell::new(String::new()) }; }

pub fn panic_msg(p: &Box<dyn std::any::Any + Send>) -> String {
    let loc = LAST_PANIC.with(|c| c.borrow().clone());
    format!("{} @ {}", panic_text(p), loc)
}

pub fn panic_text(p: &Box<dyn std::any::Any + Send>) -> String {
    if let Some(b) = p.downcast_ref::<v::BudgetExhausted>() { return format!("BUDGET site={} ticks={}", b.site, b.ticks); }
    if let Some(s) = p.downcast_ref::<&str>() { return s.to_string(); }
    if let Some(s) = p.downcast_ref::<String>() { return s.clone(); }
    "<non-string panic>".to_string()
}
