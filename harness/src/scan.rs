//! C03 replay: (rule, word) vectors of the reference interpreter against the real interpreter,
//! comparing the structural result and, event by event, the positions found and the environment verdicts.
use asca::verif::{self as v, Event};
use asca::RuleGroup;
use crate::proj::*;
use crate::util::*;
use crate::rules;
use crate::tables;
use serde_json::{json, Value};

/// flat index (1-based) of (syll, seg) in `w`
pub fn flat_pos(w: &v::Word, syll: usize, seg: usize) -> i64 {
    let mut n = 0usize;
    for (i, s) in w.syllables.iter().enumerate() {
        if i == syll { return (n + seg + 1) as i64; }
        n += s.segments.len();
    }
    (n + 1) as i64
}

/// [[position found, environment verdict], ..] reconstructed from the events of one sub-rule application
pub fn steps_of(events: &[Event], start: &v::Word) -> Vec<(i64, bool)> {
    let mut cur = start.clone();
    let mut steps = Vec::new();
    let mut pending: Option<i64> = None;
    for e in events {
        match e {
            Event::Found { caps, .. } => { pending = caps.first().map(|c| flat_pos(&cur, c.1, c.2)); }
            Event::Env { ok } => { if let Some(p) = pending.take() { steps.push((p, *ok)); } }
            Event::Xform { word, .. } => { cur = word.clone(); }
            _ => {}
        }
    }
    steps
}

pub fn replay() {
    let t = tables::load();
    let mut sum = Summary::default();
    replay_stdin(|vec| {
        sum.vectors += 1;
        let word = json_word(&vec["w"]);
        let exp = json_word(&vec["exp"]);
        let text = rules::rule_text(&vec["rule"], &t);
        if exp != word { sum.nontrivial += 1; }
        let (w2, t2) = (word.clone(), text.clone());
        let rec = crate::util::rec(5_000_000, true, false, move || {
            let rules = v::parse_rules(&[RuleGroup::from_rules(vec![t2])])?;
            let steps = v::apply_structural(&rules, w2.clone())?;
            Ok::<_, asca::Error>(steps.last().map(|s| s.word.clone()).unwrap_or(w2))
        });
        let has_steps = vec.get("steps").is_some();
        let exp_err = vec.get("err").and_then(|b| b.as_bool()).unwrap_or(false);       // ScanX: the reference run ends in an error (the whole word would be deleted)
        let exp_steps: Vec<(i64, bool)> = vec.get("steps").and_then(|s| s.as_array()).map(|a| a.iter().map(|s| (s[0].as_i64().unwrap(), s[1].as_bool().unwrap())).collect()).unwrap_or_default();
        let render = |w: &v::Word| v::render_word(w, &v::no_aliases());
        match &rec.result {
            Ok(Ok(w)) => {
                let obs_steps = steps_of(&rec.events, &word);
                if !exp_err && *w == exp && (!has_steps || obs_steps == exp_steps) {
                    sum.agree += 1;
                    if exp != word && sum.vectors % 101 == 0 { sum.sample(|| json!({"rule": text, "word": render(&word), "expected": render(&exp), "steps": vec["steps"]})); }
                } else {
                    sum.mismatch(json!({"rule": text, "word": render(&word), "expected": if exp_err { "an error".to_string() } else { render(&exp) }, "observed": render(w), "expected_struct": vec["exp"], "observed_struct": word_json(w),
                                        "expected_steps": vec["steps"], "observed_steps": obs_steps, "ast": vec["rule"]}));
                }
            }
            Ok(Err(_)) if exp_err => { sum.agree += 1; sum.count("expected_errors", 1); }
            Ok(Err(e)) => sum.mismatch(json!({"rule": text, "word": render(&word), "expected": render(&exp), "observed": {"err": err_json(e)}, "ast": vec["rule"]})),
            Err(p) => sum.mismatch(json!({"rule": text, "word": render(&word), "expected": render(&exp), "observed": {"panic": panic_msg(p)}, "ast": vec["rule"]})),
        }
    });
    sum.print();
}
