//! C13 replay: alternative spellings of the same rule or word behave identically.
use asca::verif as v;
use asca::RuleGroup;
use crate::proj::*;
use crate::util::*;
use crate::rules;
use crate::tables;
use crate::laws::gen_word_text;
use serde_json::{json, Value};

fn outcome(rule: &str, word: &str, into: &[String], from: &[String]) -> String {
    let (r, w, i, f) = (rule.to_string(), word.to_string(), into.to_vec(), from.to_vec());
    let rec = crate::util::rec(30_000, false, false, move || asca::run(&[RuleGroup::from_rules(vec![r])], &[w], &i, &f));
    match rec.result { Ok(Ok(o)) => format!("ok {:?}", o), Ok(Err(e)) => format!("err {}", err_key(&e)), Err(p) => if p.downcast_ref::<v::BudgetExhausted>().is_some() { "budget".into() } else { format!("panic {}", panic_text(&p)) } }
}

fn case_variant(s: &str, variant: u64) -> String {
    match variant {
        // letter case is NOT varied: a capital letter in front of a feature name is an alpha (`[Avoice]`), so upper-case spellings are ambiguous by design
        1 | 2 => s.to_string(),
        3 => format!(" {s} "),
        _ => s.chars().map(|c| c.to_string()).collect::<Vec<_>>().join(" "),
    }
}

pub struct Lex { feats: Vec<Vec<String>>, aliases: Vec<(String, String)> }
pub fn load_lex() -> Lex {
    let path = std::env::var("VERIF_LEXICON").unwrap_or("/verif/spec/frozen/lexicon.json".into());
    let j: Value = serde_json::from_str(&std::fs::read_to_string(path).expect("lexicon.json")).unwrap();
    Lex { feats: j["features"].as_array().unwrap().iter().map(|c| c["spellings"].as_array().unwrap().iter().map(|s| s.as_str().unwrap().to_string()).collect()).collect(),
          aliases: j["input_aliases"].as_object().unwrap().iter().map(|(k, x)| (x.as_str().unwrap().to_string(), k.clone())).collect() }
}

/// a respelling of a rule text, chosen by `sp`: every token with documented synonyms may be replaced
pub fn respell_rule(text: &str, sp: u64, lex: &Lex) -> String {
    let mut rng = Rng::new(sp);
    let mut out = String::new();
    // alpha letters and variable numbers are renamed consistently
    let alpha_map: Vec<(char, char)> = vec![('A', ['α', 'B', 'Z'][rng.below(3)]), ('B', ['β', 'C', 'Y'][rng.below(3)])];
    let var_shift = [0u32, 3, 6][rng.below(3)];
    let toks: Vec<&str> = text.split(' ').collect();
    let mut in_matrix = false;
    for (ti, tok) in toks.iter().enumerate() {
        let mut t = tok.to_string();
        match *tok {
            ">" => t = [">", "=>", "->"][rng.below(3)].to_string(),
            "|" => t = ["|", "//"][rng.below(2)].to_string(),
            "*" => t = ["*", "∅"][rng.below(2)].to_string(),
            "..." => t = ["...", "..", "…"][rng.below(3)].to_string(),
            _ => {}
        }
        // feature names: a token like `[+voi,` `-son]` `C:[+voi]`
        let mut res = String::new();
        let chars: Vec<char> = t.chars().collect();
        let mut k = 0;
        while k < chars.len() {
            let c = chars[k];
            if c == '[' { in_matrix = true; res.push(c); if rng.chance(1, 4) { res.push(' '); } k += 1; continue; }
            if c == ']' { in_matrix = false; if rng.chance(1, 4) { res.push(' '); } res.push(c); k += 1; continue; }
            if in_matrix && (c.is_ascii_alphabetic() || c == '.') {
                // read the name
                let start = k;
                while k < chars.len() && (chars[k].is_ascii_alphabetic() || chars[k] == '.') { k += 1; }
                let name: String = chars[start..k].iter().collect();
                // an alpha letter is a single capital directly before a name
                if name.len() >= 2 && name.chars().next().unwrap().is_ascii_uppercase() && name[1..].chars().all(|x| x.is_ascii_lowercase() || x == '.') {
                    let a = name.chars().next().unwrap();
                    let rest = &name[1..];
                    let na = alpha_map.iter().find(|(x, _)| *x == a).map(|(_, y)| *y).unwrap_or(a);
                    res.push(na);
                    res.push_str(&respell_feat(rest, &mut rng, lex));
                } else { res.push_str(&respell_feat(&name, &mut rng, lex)); }
                continue;
            }
            if !in_matrix && c == '<' && rng.chance(1, 2) && t.contains('>') && ti > 0 { res.push('⟨'); k += 1; continue; }
            res.push(c); k += 1;
        }
        // the inbuilt aliases that may be used inside a rule (doc: g ? ! ǝ φ)
        if !res.contains('[') && !res.contains(']') {
            for (ipa, al) in [('ɡ', 'g'), ('ʔ', '?'), ('ǃ', '!'), ('ə', 'ǝ'), ('ɸ', 'φ')] { if res.contains(ipa) && rng.chance(1, 2) { res = res.replace(ipa, &al.to_string()); } }
        }
        // a structure opened with ⟨ must be closed with ⟩
        if res.contains('⟨') { if let Some(p) = res.rfind('>') { res.replace_range(p..p + 1, "⟩"); } }
        // variable numbers: `=1`, a bare `1`
        if var_shift > 0 {
            if let Some(p) = res.rfind('=') { if res[p + 1..].chars().all(|x| x.is_ascii_digit()) && !res[p + 1..].is_empty() { let n: u32 = res[p + 1..].parse().unwrap(); res = format!("{}={}", &res[..p], n + var_shift); } }
            else if res.chars().all(|x| x.is_ascii_digit()) && !res.is_empty() && !toks[..ti].iter().rev().take(3).any(|t| t.contains('(')) { let n: u32 = res.parse().unwrap(); res = (n + var_shift).to_string(); }
            else if let Some(p) = res.find(":[") { if res[..p].chars().all(|x| x.is_ascii_digit()) && p > 0 { let n: u32 = res[..p].parse().unwrap(); res = format!("{}{}", n + var_shift, &res[p..]); } }
        }
        if ti > 0 { out.push(' '); if rng.chance(1, 8) { out.push(' '); } }
        out.push_str(&res);
    }
    if rng.chance(1, 3) { out.push_str(" ;; a note > with / symbols | _"); }
    out
}

fn respell_feat(name: &str, rng: &mut Rng, lex: &Lex) -> String {
    if name == "tone" { return ["tone", "ton", "tn", "tne"][rng.below(4)].to_string(); }
    for class in &lex.feats {
        if class.iter().any(|s| s == name) {
            let s = rng.pick(class).clone();
            return case_variant(&s, 1 + rng.below(4) as u64);
        }
    }
    name.to_string()
}

/// a respelling of a word text
fn respell_word(w: &str, sp: u64, lex: &Lex) -> String {
    let mut rng = Rng::new(sp);
    let mut s = w.to_string();
    if rng.chance(1, 2) { s = s.replace('ˈ', "'"); }
    if rng.chance(1, 2) { s = s.replace('ˌ', ","); }
    if rng.chance(1, 3) { s = s.replace("ː.", ";"); }
    if rng.chance(1, 2) { s = s.replace('ː', ":"); }
    if rng.chance(1, 2) { s = s.replace('\u{361}', "^"); }
    for (ipa, alias) in &lex.aliases { if rng.chance(1, 2) { s = s.replace(ipa.as_str(), alias); } }
    s
}

pub fn replay() {
    let t = tables::load();
    let lex = load_lex();
    let seed = env_u64("VERIF_SEED", 1);
    let al = v::no_aliases();
    let mut sum = Summary::default();
    // systematic stratum: "consistent renaming of alpha letters (Greek or Latin)" - every letter of both alphabets, plain and inverted
    {
        let letters: Vec<char> = ('α'..='ω').chain('A'..='Z').collect();
        let shapes: [&dyn Fn(char) -> String; 3] = [&|x| format!("[+cons, {x}voi] > [{x}cont]"), &|x| format!("C > [-{x}voi] / [{x}nas]_"), &|x| format!("ə$ > * / P:[-nas, {x}PLACE]_N:[-{x}PLACE]")];
        for shape in shapes {
            for w in ["ta.na", "an.ta", "ma.da", "pə.no", "kə.ŋa"] {
                let canon = outcome(&shape('A'), w, &[], &[]);
                for x in &letters {
                    sum.vectors += 1; sum.nontrivial += 1; sum.count("alpha_letter_sweep", 1);
                    let r = shape(*x);
                    let o = outcome(&r, w, &[], &[]);
                    if o == canon { sum.agree += 1; } else { sum.mismatch(json!({"kind": "alpha letter", "canonical": shape('A'), "respelled": r, "word": w, "canonical_result": canon, "respelled_result": o})); }
                }
            }
        }
    }
    // systematic stratum: word spellings of every multi-character base phone - tie bar / `^`, a `^` written where the tie is implicit (clicks),
    // and every input alias of its letters, alone and together: a word and its documented respelling have the same outcome (Ok and equal, or the same error kind)
    {
        let is_click = |c: char| "ʘǀǁǃ‼ǂ".contains(c);
        let is_base = |c: char| !('\u{0300}'..='\u{036f}').contains(&c) && c != '\u{0361}' && c != '\u{035c}';
        for (g, _) in t.cards.iter() {
            let chars: Vec<char> = g.chars().collect();
            if chars.len() < 2 { continue; }
            let mut bases: Vec<String> = vec![g.clone()];
            if g.contains('\u{0361}') { bases.push(g.replace('\u{0361}', "^")); }
            if chars.iter().any(|c| is_click(*c)) {
                // `^` before each later base letter, one position at a time
                for i in 1..chars.len() { if is_base(chars[i]) { let mut b: String = chars[..i].iter().collect(); b.push('^'); b.extend(chars[i..].iter()); bases.push(b); } }
            }
            for (bi, b) in bases.iter().enumerate() {
                let w0 = format!("a{b}a");
                let canon = outcome("a > e", &w0, &[], &[]);
                if bi == 1 && g.contains('\u{0361}') {
                    sum.vectors += 1; sum.nontrivial += 1; sum.count("word_spelling_sweep", 1);
                    let c0 = outcome("a > e", &format!("a{g}a"), &[], &[]);
                    if c0 == canon { sum.agree += 1; } else { sum.mismatch(json!({"kind": "word spelling", "word": format!("a{g}a"), "respelled_word": w0, "result": c0, "result_word": canon})); }
                }
                let applicable: Vec<&(String, String)> = lex.aliases.iter().filter(|(ipa, _)| b.contains(ipa.as_str())).collect();
                let mut variants: Vec<String> = applicable.iter().map(|(ipa, al)| w0.replace(ipa.as_str(), al)).collect();
                if applicable.len() > 1 { let mut all = w0.clone(); for (ipa, al) in &applicable { all = all.replace(ipa.as_str(), al); } variants.push(all); }
                for w1 in variants {
                    sum.vectors += 1; sum.nontrivial += 1; sum.count("word_spelling_sweep", 1);
                    let o = outcome("a > e", &w1, &[], &[]);
                    if o == canon { sum.agree += 1; } else { sum.mismatch(json!({"kind": "word spelling", "word": w0, "respelled_word": w1, "result": canon, "result_word": o})); }
                }
            }
        }
    }
    replay_stdin(|vec| {
        let kind = vec["kind"].as_str().unwrap();
        if kind == "feat" {
            // table conformance through both lexers
            let x = &vec["v"];
            let (canon, sp, fkind) = (x["canon"].as_str().unwrap(), x["spelling"].as_str().unwrap(), x["fkind"].as_str().unwrap());
            let spv = case_variant(sp, vec["variant"].as_u64().unwrap());
            let (rule_a, rule_b, words): (String, String, Vec<&str>) = match fkind {
                "Supr" => (format!("V:[+{canon}] > [-{canon}]"), format!("V:[+{spv}] > [-{spv}]"), vec!["ˈtaː.ta", "ˌtaːː", "ta"]),
                "Node" if ["root", "manner", "laryngeal"].contains(&canon) => (format!("[+{canon}] > a"), format!("[+{spv}] > a"), vec!["ta", "ħa"]),
                "Node" => (format!("[+{canon}] > [-{canon}]"), format!("[+{spv}] > [-{spv}]"), vec!["pa.ta.ka.ħa", "ʔa"]),
                _ => (format!("[-{canon}] > [+{canon}]"), format!("[-{spv}] > [+{spv}]"), vec!["pa.ti.ku", "sə.ne.ħo", "wa.lar"]),
            };
            for w in words {
                sum.vectors += 1; sum.nontrivial += 1;
                let (a, b) = (outcome(&rule_a, w, &[], &[]), outcome(&rule_b, w, &[], &[]));
                // the alias lexer: a romaniser on the same feature
                let (fa, fb) = (vec![format!("[+{canon}] > X")], vec![format!("[+{spv}] > X")]);
                let (ra, rb) = if fkind == "Supr" { (String::new(), String::new()) } else { (outcome("q > q", w, &[], &fa), outcome("q > q", w, &[], &fb)) };
                if a == b && ra == rb { sum.agree += 1; if sum.vectors % 397 == 0 { sum.sample(|| json!({"canonical": rule_a, "respelled": rule_b, "word": w, "result": a})); } }
                else { sum.mismatch(json!({"kind": "feature spelling", "canonical": rule_a, "respelled": rule_b, "word": w, "canonical_result": a, "respelled_result": b, "alias_canonical": ra, "alias_respelled": rb})); }
            }
        } else {
            let x = &vec["v"];
            let mut t0 = rules::rule_text(&x["rule"], &t);
            // `/ _` and `| _` written out are rules too (and have their own path through the environment parser)
            {
                let mut r0 = Rng::new(x["sp1"].as_u64().unwrap() ^ 0x5bd1);
                if !t0.contains(" / ") && r0.chance(1, 3) {
                    t0 = match t0.find(" | ") { Some(p) => format!("{} / _{}", &t0[..p], &t0[p..]), None => format!("{t0} / _") };
                    sum.count("bare_underline_context", 1);
                }
                if !t0.contains(" | ") && r0.chance(1, 12) { t0 = format!("{t0} | _"); sum.count("bare_underline_exception", 1); }
            }
            let (t1, t2) = (respell_rule(&t0, x["sp1"].as_u64().unwrap(), &lex), respell_rule(&t0, x["sp2"].as_u64().unwrap(), &lex));
            let mut rng = Rng::new(seed.wrapping_mul(131).wrapping_add(vec["seed"].as_u64().unwrap()));
            let directed = crate::directed::words(&x["rule"], &t, &mut rng, 2);
            for k in 0..4 {
                let wt = if k >= 2 && (k as usize - 2) < directed.len() { directed[k as usize - 2].clone() } else { gen_word_text(&mut rng, true) };
                let Ok(word) = v::parse_word(&wt, &al) else { continue };
                let w0 = v::render_word(&word, &al);
                let w1 = respell_word(&w0, x["sp1"].as_u64().unwrap() + k, &lex);
                sum.vectors += 1;
                let (a, b, c, d) = (outcome(&t0, &w0, &[], &[]), outcome(&t1, &w0, &[], &[]), outcome(&t2, &w0, &[], &[]), outcome(&t0, &w1, &[], &[]));
                if a.starts_with("ok") && !a.contains(&format!("{:?}", w0)) { sum.nontrivial += 1; }
                if a == "budget" || a.starts_with("panic") { sum.count("not_judged (C02's domain)", 1); continue; }
                if a == b && a == c && a == d { sum.agree += 1; if sum.vectors % 1999 == 0 { sum.sample(|| json!({"rule": t0, "respelled": [t1, t2], "word": w0, "respelled_word": w1, "result": a})); } }
                else { sum.mismatch(json!({"kind": "rule/word respelling", "rule": t0, "respelling_1": t1, "respelling_2": t2, "word": w0, "respelled_word": w1, "result": a, "result_1": b, "result_2": c, "result_word": d})); }
            }
        }
    });
    sum.print();
}
