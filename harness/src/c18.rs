//! C18 replay: the real Place / Segment accessors against the concrete model of PlacePacking, bit for bit.
use asca::{Place, Segment, NodeKind};
use crate::proj::*;
use crate::util::*;
use serde_json::{json, Value};

fn place_of(u: i64) -> Place {
    let mut p = Place::default();
    *p = if u < 0 { None } else { Some(u as u16) };
    p
}
fn raw(p: &Place) -> i64 { match **p { Some(x) => x as i64, None => -1 } }
fn opt(v: i64) -> Option<u8> { if v < 0 { None } else { Some(v as u8) } }
fn unopt(v: Option<u8>) -> i64 { match v { Some(x) => x as i64, None => -1 } }

/// the 80 setter calls in the order of GEN_C18!OpSeq
fn ops() -> Vec<(usize, i64)> {
    let mut v = Vec::new();
    for x in [0usize, 1, 3] { for val in -1..4 { v.push((x, val)); } }
    for val in -1..64 { v.push((2, val)); }
    v
}
const SUBN: [&str; 4] = ["lab", "cor", "dor", "phr"];
const SUBS: [NodeKind; 4] = [NodeKind::Labial, NodeKind::Coronal, NodeKind::Dorsal, NodeKind::Pharyngeal];

pub fn replay() {
    let mut sum = Summary::default();
    let ops = ops();
    replay_stdin(|vec| {
        let kind = vec["kind"].as_str().unwrap();
        let u = vec["u"].as_i64().unwrap();
        let res = &vec["res"];
        if kind == "place" {
            let p0 = place_of(u);
            let wf = res["wf"].as_bool().unwrap();
            // getters
            let gets = [p0.get_labial(), p0.get_coronal(), p0.get_dorsal(), p0.get_pharyngeal()];
            for (i, g) in gets.iter().enumerate() {
                sum.vectors += 1;
                let e = res["gets"][i].as_i64().unwrap();
                let some = [p0.labial_is_some(), p0.coronal_is_some(), p0.dorsal_is_some(), p0.pharyngeal_is_some()][i];
                if unopt(*g) == e && some == (e >= 0) { sum.agree += 1; } else { sum.mismatch(json!({"u": u, "get": i, "expected": e, "observed": unopt(*g)})); }
            }
            // setters
            for (i, (x, val)) in ops.iter().enumerate() {
                sum.vectors += 1;
                let mut p = p0;
                let r = std::panic::catch_unwind(move || {
                    match x { 0 => p.set_labial(opt(*val)), 1 => p.set_coronal(opt(*val)), 2 => p.set_dorsal(opt(*val)), _ => p.set_pharyngeal(opt(*val)) }
                    p
                });
                let e = res["sets"][i].as_i64().unwrap();
                if e != u { sum.nontrivial += 1; }
                match r {
                    Ok(p) if raw(&p) == e => { sum.agree += 1; if i % 17 == 3 { sum.sample(|| json!({"packed": u, "set": SUBN[*x], "value": val, "expected": e, "observed": raw(&p)})); } }
                    Ok(p) => {
                        let case = json!({"packed": u, "well_formed": wf, "set": SUBN[*x], "value": val, "expected": e, "observed": raw(&p)});
                        sum.mismatch(case);
                    }
                    Err(_) => sum.mismatch(json!({"packed": u, "set": x, "value": val, "observed": "panic"})),
                }
            }
            // place features through the Segment API
            for fr in res["feats"].as_array().unwrap() {
                let f = fr["f"].as_u64().unwrap() as usize;
                let (ni, mask, _) = FEATS[f - 1];
                let node = NODES7[ni];
                let seg = Segment { root: 0, manner: 0, laryngeal: 0, place: p0 };
                for (pos, key, mkey) in [(true, "setp", "mp"), (false, "setn", "mn")] {
                    sum.vectors += 1;
                    let mut s = seg;
                    s.set_feat(node, mask, pos);
                    let e = fr[key].as_i64().unwrap();
                    let em = fr[mkey].as_bool().unwrap();
                    // frame: the other sub-nodes read as before
                    let frame_ok = SUBS.iter().all(|n| *n == node || s.get_node(*n) == seg.get_node(*n));
                    let getfeat_ok = seg.get_feat(node, mask) == seg.get_node(node).map(|n| n & mask);
                    // the match equation in full: node_match(node, v) <=> get_node(node) == v, for the absent value, zero, the stored value and its neighbours
                    let cur = seg.get_node(node);
                    let probes = [None, Some(0u8), Some(1), Some(3), Some(63), cur, cur.map(|c| c ^ 1), cur.map(|c| c ^ 2)];
                    let nm_ok = probes.iter().all(|v| seg.node_match(node, *v) == (cur == *v)) && seg.is_node_some(node) == cur.is_some() && seg.is_node_none(node) != seg.is_node_some(node);
                    if unopt(s.get_node(node)) == e && seg.feat_match(node, mask, pos) == em && frame_ok && getfeat_ok && nm_ok {
                        sum.agree += 1;
                    } else {
                        sum.mismatch(json!({"packed": u, "feature": f, "positive": pos, "expected_node": e, "observed_node": unopt(s.get_node(node)),
                                            "expected_match": em, "observed_match": seg.feat_match(node, mask, pos), "frame_ok": frame_ok, "get_feat_ok": getfeat_ok, "node_match_equation_ok": nm_ok}));
                    }
                }
            }
            // place-level presence
            sum.vectors += 1;
            let seg = Segment { root: 0, manner: 0, laryngeal: 0, place: p0 };
            if seg.is_place_some() == (u >= 0) && seg.is_place_none() == (u < 0) && p0.is_some() == (u >= 0) { sum.agree += 1; } else { sum.mismatch(json!({"packed": u, "is_place_some": seg.is_place_some()})); }
        } else {
            for (key, node) in [("rut", NodeKind::Root), ("man", NodeKind::Manner), ("lar", NodeKind::Laryngeal)] {
                for fr in res[key].as_array().unwrap() {
                    let f = fr["f"].as_u64().unwrap() as usize;
                    let mask = FEATS[f - 1].1;
                    let mut seg = Segment::default();
                    seg.set_node(node, Some(u as u8));
                    for (pos, skey, mkey) in [(true, "setp", "mp"), (false, "setn", "mn")] {
                        sum.vectors += 1;
                        let mut s = seg;
                        s.set_feat(node, mask, pos);
                        let e = fr[skey].as_i64().unwrap();
                        if e != u { sum.nontrivial += 1; }
                        let em = fr[mkey].as_bool().unwrap();
                        let others_ok = [NodeKind::Root, NodeKind::Manner, NodeKind::Laryngeal].iter().all(|n| *n == node || s.get_node(*n) == seg.get_node(*n)) && s.place == seg.place;
                        let cur = seg.get_node(node);
                        let nm_ok = [None, Some(0u8), Some(1), Some(255), cur, cur.map(|c| c ^ 1), cur.map(|c| c ^ 4)].iter().all(|v| seg.node_match(node, *v) == (cur == *v));
                        if unopt(s.get_node(node)) == e && seg.feat_match(node, mask, pos) == em && others_ok && nm_ok && seg.get_feat(node, mask) == Some(u as u8 & mask) {
                            sum.agree += 1;
                        } else {
                            sum.mismatch(json!({"node": key, "byte": u, "feature": f, "positive": pos, "expected": e, "observed": unopt(s.get_node(node)), "expected_match": em}));
                        }
                    }
                }
            }
        }
    });
    sum.print();
}
