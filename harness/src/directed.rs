//! Words derived from a rule: assembled from segments that match the rule's own elements (before-context, input, after-context),
//! whole, cut short at either end (so that a match is left unfinished at a word edge), doubled, and with stray neighbours.
//! Random words seldom put a rule to work; these do - and they are still only inputs: every verdict comes from the law or
//! the reference result, never from how the word was made.
use asca::verif as v;
use crate::proj::*;
use crate::util::*;
use crate::tables::Tables;
use serde_json::Value;

/// the manual's group letters as feature lists (feature id 1-based in the manual's order, positive)
const GROUPS: [&[(usize, bool)]; 9] = [
    &[(3, false)], &[(1, true), (2, false), (3, false)], &[(1, true), (2, true), (3, false)], &[(1, true), (2, false), (3, false), (8, false), (4, false)],
    &[(1, true), (2, false), (3, false), (5, false), (4, true)], &[(1, true), (2, true), (3, false), (5, true)], &[(1, true), (2, true), (3, false), (5, false), (7, true)],
    &[(1, false), (2, true), (3, false)], &[(1, false), (2, true), (3, true)],
];
const COMMON: [&str; 24] = ["a", "e", "i", "o", "u", "p", "t", "k", "b", "d", "ɡ", "s", "z", "m", "n", "ŋ", "l", "r", "j", "w", "h", "ʔ", "f", "x"];

fn feat_ok(seg: &v::Segment, f: usize, pos: bool) -> bool {
    let (ni, mask, _) = FEATS[f - 1];
    seg.feat_match(NODES7[ni], mask, pos)
}

fn node_ok(seg: &v::Segment, name: &str, pos: bool) -> bool {
    let present = match name {
        "lab" => seg.get_node(NODES7[3]).is_some(), "cor" => seg.get_node(NODES7[4]).is_some(), "dor" => seg.get_node(NODES7[5]).is_some(), "phr" => seg.get_node(NODES7[6]).is_some(),
        "place" => seg.is_place_some(), _ => true,
    };
    present == pos
}

/// a grapheme (with length marks) of a segment that satisfies the element's binary modifiers; alphas and anything unknown are ignored
fn sample_seg(e: &Value, t: &Tables, rng: &mut Rng) -> Option<String> {
    let fm = e["fm"].as_array().cloned().unwrap_or_default();
    let mut len = "";
    for m in &fm { if m[0] == "s" && m[2] == true { if m[1] == "long" && len.is_empty() { len = "ː"; } if m[1] == "overlong" { len = "ːː"; } } }
    let k = e["k"].as_str().unwrap_or("");
    if k == "ipa" { return Some(format!("{}{}", t.cards[e["id"].as_u64()? as usize - 1].0, len)); }
    let mut need: Vec<(usize, bool)> = Vec::new();
    if k == "grp" { need.extend_from_slice(GROUPS[e["id"].as_u64()? as usize - 1]); }
    let ok = |seg: &v::Segment| need.iter().all(|(f, p)| feat_ok(seg, *f, *p)) && fm.iter().all(|m| {
        match (m[0].as_str(), m[2].as_bool()) {
            (Some("f"), Some(p)) => feat_ok(seg, m[1].as_u64().unwrap_or(1) as usize, p),
            (Some("n"), Some(p)) => node_ok(seg, m[1].as_str().unwrap_or(""), p),
            _ => true,
        }
    });
    let mut cands: Vec<&str> = COMMON.iter().copied().filter(|g| t.cards.iter().find(|(h, _)| h == g).map(|(_, s)| ok(s)).unwrap_or(false)).collect();
    if cands.len() < 2 || rng.chance(1, 5) {
        let start = rng.below(t.cards.len());
        for i in 0..t.cards.len() { let (g, s) = &t.cards[(start + i) % t.cards.len()]; if ok(s) { cands.push(g.as_str()); if cands.len() >= 6 { break; } } }
    }
    if cands.is_empty() { return None; }
    Some(format!("{}{}", rng.pick(&cands), len))
}

/// one rendering of a sequence of elements as word pieces ("." = syllable break)
fn pieces(es: &Value, t: &Tables, rng: &mut Rng, out: &mut Vec<String>) {
    let Some(a) = es.as_array() else { return };
    let mut last_unit: Vec<String> = Vec::new();       // what the previous element produced: a variable reference repeats it (segment or whole syllable)
    for e in a {
        let start = out.len();
        if e["k"] == "var" && !last_unit.is_empty() { out.extend(last_unit.iter().cloned()); continue; }
        match e["k"].as_str().unwrap_or("") {
            "ipa" | "mx" | "grp" => { if let Some(g) = sample_seg(e, t, rng) { out.push(g); } else { out.push(rng.pick(&COMMON[..]).to_string()); } }
            "set" => { if let Some(items) = e["items"].as_array() { if !items.is_empty() { let it = Value::Array(vec![rng.pick(items).clone()]); pieces(&it, t, rng, out); } } }
            "opt" => { let n = e["id"].as_u64().unwrap_or(0) as usize + rng.below(2); for _ in 0..n.min(3) { pieces(&e["items"], t, rng, out); } }
            "struct" => { out.push(".".into()); pieces(&e["items"], t, rng, out); out.push(".".into()); }
            "syl" => { out.push(".".into()); out.push(rng.pick(&COMMON[5..]).to_string()); out.push(rng.pick(&COMMON[..5]).to_string()); out.push(".".into()); }
            "sb" => out.push(".".into()),
            "ell" => { for _ in 0..1 + rng.below(2) { out.push(rng.pick(&COMMON[..]).to_string()); } }
            "var" => { if let Some(last) = out.iter().rev().find(|p| *p != ".").cloned() { out.push(last); } }
            _ => {}
        }
        if out.len() > start { last_unit = out[start..].to_vec(); }
    }
}

fn join(ps: &[String], rng: &mut Rng) -> String {
    let mut s = String::new();
    let mut last_dot = true;
    let mut prev = String::new();
    for p in ps {
        if p == "." { if !last_dot { s.push('.'); last_dot = true; } continue; }
        if !last_dot && rng.chance(1, 5) { s.push('.'); }
        else if !last_dot && *p == prev { s.push('.'); }          // identical neighbours would read as one long segment
        s.push_str(p); last_dot = false; prev = p.clone();
    }
    while s.ends_with('.') { s.pop(); }
    s
}

/// up to `n` distinct words that put `rule` (an AST) to work; only words the word parser accepts
pub fn words(rule: &Value, t: &Tables, rng: &mut Rng, n: usize) -> Vec<String> {
    let al = v::no_aliases();
    let mut out: Vec<String> = Vec::new();
    let envs: Vec<&Value> = rule["ctx"].as_array().into_iter().flatten().chain(rule["exc"].as_array().into_iter().flatten()).collect();
    for attempt in 0..(n * 4) {
        if out.len() >= n { break; }
        let mut ps: Vec<String> = Vec::new();
        let env = if envs.is_empty() { None } else { Some(*rng.pick(&envs)) };
        let mut nb = 0;
        if let Some(e) = env { pieces(&e["b"], t, rng, &mut ps); nb = ps.len(); }
        let insertion = rule["inp"][0]["k"] == "empty";
        if insertion { if attempt % 3 == 0 { pieces(&rule["out"], t, rng, &mut ps); } } else { pieces(&rule["inp"], t, rng, &mut ps); }
        if let Some(e) = env { pieces(&e["a"], t, rng, &mut ps); }
        if ps.iter().all(|p| p == ".") { ps.push(rng.pick(&COMMON[..]).to_string()); }
        let full = ps.clone();
        let shaped: Vec<String> = match attempt % 6 {
            0 => full,
            1 => { let k = 1 + rng.below(2); full[..full.len().saturating_sub(k).max(1)].to_vec() }                      // the match runs off the end of the word
            2 => { let k = (1 + rng.below(2)).min(full.len() - 1); full[k..].to_vec() }                                   // ... or starts before its beginning
            3 => { let mut d = full.clone(); d.push(".".into()); d.extend(full.clone()); d }                               // twice
            4 => { let mut d = vec![rng.pick(&COMMON[..]).to_string()]; d.extend(full); d.push(rng.pick(&COMMON[..]).to_string()); d } // with neighbours
            _ => { let mut d = full[..nb.min(full.len())].to_vec(); d.extend(full.clone()); d }                             // the before-context repeated
        };
        let mut w = join(&shaped, rng);
        if w.is_empty() { continue; }
        if rng.chance(1, 5) { w = format!("ˈ{w}"); }
        if rng.chance(1, 8) { w.push_str(["5", "51", "214"][rng.below(3)]); }
        if v::parse_word(&w, &al).is_ok() && !out.contains(&w) { out.push(w); }
    }
    out
}
