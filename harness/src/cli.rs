//! C19 replay: the real `asca` binary on files written from TLC-enumerated line sequences, against Cli.tla's readers/writers and the library.
use asca::RuleGroup;
use crate::util::*;
use serde_json::{json, Value};
use std::path::{Path, PathBuf};
use std::process::{Command, Stdio};

const NAMES: [&str; 2] = ["", "Group One"];
const RULES: [&str; 3] = ["", "a > e", "t > d / _#"];
const DESCS: [&str; 3] = ["", "some words", "more: a > b"];
const ENTRIES: [&str; 3] = ["", "sh > ʃ", "ng > ŋ"];
const WORDS: [&str; 3] = ["", "ta.ta", "'pa.tit"];

pub struct Bin { pub path: String, pub scratch: PathBuf, pub n: u64 }
impl Bin {
    pub fn new() -> Self {
        let path = std::env::var("VERIF_ASCA_BIN").unwrap_or("/verif/.build/cli/release/asca".into());
        let scratch = PathBuf::from(std::env::var("VERIF_SCRATCH").unwrap_or(format!("/verif/.build/cli-scratch/{}", std::process::id())));
        let _ = std::fs::remove_dir_all(&scratch);
        std::fs::create_dir_all(&scratch).unwrap();
        Bin { path, scratch, n: 0 }
    }
    pub fn case_dir(&mut self) -> PathBuf { self.n += 1; let d = self.scratch.join(format!("c{}", self.n)); std::fs::create_dir_all(&d).unwrap(); d }
    /// runs the binary in `dir` with stdin closed; returns (exit code, stdout, stderr); a run longer than 20 s is killed and reported as code -2
    pub fn run(&self, dir: &Path, args: &[&str]) -> (i32, String, String) {
        let mut child = Command::new(&self.path).args(args).current_dir(dir).stdin(Stdio::null()).stdout(Stdio::piped()).stderr(Stdio::piped()).env("NO_COLOR", "1").spawn().expect("spawn asca");
        let start = std::time::Instant::now();
        loop {
            match child.try_wait() {
                Ok(Some(_)) => break,
                Ok(None) => { if start.elapsed().as_secs() > 20 { let _ = child.kill(); let _ = child.wait(); return (-2, String::new(), "timeout".into()); } std::thread::sleep(std::time::Duration::from_millis(2)); }
                Err(_) => break,
            }
        }
        let out = child.wait_with_output().expect("wait");
        (out.status.code().unwrap_or(-1), String::from_utf8_lossy(&out.stdout).into(), String::from_utf8_lossy(&out.stderr).into())
    }
    pub fn cleanup(&self) { let _ = std::fs::remove_dir_all(&self.scratch); }
}

fn pad(rng: &mut Rng) -> &'static str { ["", "    ", "\t", "  "][rng.below(4)] }
fn trail(rng: &mut Rng) -> &'static str { ["", "", " ", "  \t"][rng.below(4)] }

fn rsca_text(lines: &Value, rng: &mut Rng) -> String {
    let mut s = String::new();
    for l in lines.as_array().unwrap() {
        let v = l["v"].as_u64().unwrap() as usize;
        let body = match l["k"].as_str().unwrap() {
            "name" => format!("@{}{}", if rng.chance(1, 2) { " " } else { "" }, NAMES[v]),
            "desc" => format!("#{}{}", if rng.chance(1, 2) { " " } else { "" }, DESCS[v]),
            "rule" => RULES[v].to_string(),
            _ => String::new(),
        };
        s.push_str(pad(rng)); s.push_str(&body); s.push_str(trail(rng)); s.push('\n');
    }
    s
}

fn exp_groups(g: &Value) -> Vec<RuleGroup> {
    g.as_array().unwrap().iter().map(|x| RuleGroup {
        name: NAMES[x["name"].as_u64().unwrap() as usize].to_string(),
        rule: x["rules"].as_array().unwrap().iter().map(|r| RULES[r.as_u64().unwrap() as usize].to_string()).collect(),
        description: x["desc"].as_array().unwrap().iter().map(|d| DESCS[d.as_u64().unwrap() as usize]).collect::<Vec<_>>().join("\n"),
    }).collect()
}
fn groups_json(gs: &[RuleGroup]) -> Value { json!(gs.iter().map(|g| json!({"name": g.name, "rule": g.rule, "description": g.description})).collect::<Vec<_>>()) }
fn read_json(p: &Path) -> Option<Value> { std::fs::read_to_string(p).ok().and_then(|s| serde_json::from_str(&s).ok()) }

pub fn replay() {
    let mut bin = Bin::new();
    let seed = env_u64("VERIF_SEED", 1);
    let mut rng = Rng::new(seed ^ 0x19);
    let mut sum = Summary::default();
    let words_fixed = vec!["ta.ta".to_string(), "a.te".to_string(), "pat".to_string()];
    replay_stdin(|vec| {
        sum.vectors += 1;
        let kind = vec["kind"].as_str().unwrap();
        let dir = bin.case_dir();
        let mut problems: Vec<String> = Vec::new();
        match kind {
            "rsca" => {
                let text = rsca_text(&vec["lines"], &mut rng);
                std::fs::write(dir.join("x.rsca"), &text).unwrap();
                std::fs::write(dir.join("w.wsca"), words_fixed.join("\n")).unwrap();
                let exp = exp_groups(&vec["exp"]["groups"]);
                if exp.iter().any(|g| !g.rule.is_empty()) { sum.nontrivial += 1; }
                // (1) reader conformance: conv asca
                let (rc, _, err) = bin.run(&dir, &["conv", "asca", "-r", "x.rsca", "-w", "w.wsca", "-o", "out.json"]);
                match read_json(&dir.join("out.json")) {
                    Some(j) => { if j["rules"] != groups_json(&exp) { problems.push(format!("conv asca read {} , the documented reader gives {}", j["rules"], groups_json(&exp))); }
                                 if j["words"] != json!(words_fixed) { problems.push(format!("conv asca words {}", j["words"])); } }
                    None => problems.push(format!("conv asca wrote no json (exit {rc}): {}", err.trim())),
                }
                // (2) run -o gives the library's answer for the parsed content
                let lib = asca::run(&exp, &words_fixed, &[], &[]);
                let (rc2, _, err2) = bin.run(&dir, &["run", "-r", "x.rsca", "-w", "w.wsca", "-o", "res.wsca"]);
                let got = std::fs::read_to_string(dir.join("res.wsca")).ok();
                match (&lib, &got) {
                    (Ok(l), Some(g)) => if g.split('\n').map(|s| s.to_string()).collect::<Vec<_>>() != *l { problems.push(format!("run -o wrote {:?}, library returns {:?}", g, l)); },
                    (Ok(l), None) => problems.push(format!("run -o wrote nothing (exit {rc2}: {}), library returns {:?}", err2.trim(), l)),
                    (Err(_), Some(g)) => problems.push(format!("library fails but run -o wrote {:?}", g)),
                    (Err(_), None) => {}
                }
                // (3) json -> files -> json is the identity on well-formed projects (explicit -w/-r paths and default paths)
                if vec["exp"]["wf"].as_bool().unwrap() && dir.join("out.json").exists() {
                    let explicit = rng.chance(1, 2);
                    let (rc3, _, err3) = if explicit { bin.run(&dir, &["conv", "json", "-p", "out.json", "-w", "w2.wsca", "-r", "r2.rsca"]) } else { bin.run(&dir, &["conv", "json", "-p", "out.json"]) };
                    let (rp, wp) = if explicit { ("r2.rsca", "w2.wsca") } else { ("out.rsca", "out.wsca") };
                    if !dir.join(rp).exists() { problems.push(format!("conv json {} wrote no rule file (exit {rc3}): {}", if explicit { "-r r2.rsca" } else { "(default paths)" }, err3.trim())); }
                    else {
                        let (rc4, _, err4) = bin.run(&dir, &["conv", "asca", "-r", rp, "-w", wp, "-o", "back.json"]);
                        match (read_json(&dir.join("out.json")), read_json(&dir.join("back.json"))) {
                            (Some(a), Some(b)) => if a["rules"] != b["rules"] || a["words"] != b["words"] { problems.push(format!("json -> rsca/wsca -> json changed the project: {} became {}", a["rules"], b["rules"])); },
                            _ => problems.push(format!("round trip wrote no json (exit {rc4}): {}", err4.trim())),
                        }
                    }
                }
            }
            "alias" => {
                let mut s = String::new();
                for l in vec["lines"].as_array().unwrap() {
                    let body = match l["k"].as_str().unwrap() { "into" => "@into".to_string(), "from" => "@from".to_string(), "comment" => "# a comment".to_string(), _ => ENTRIES[l["v"].as_u64().unwrap() as usize].to_string() };
                    s.push_str(pad(&mut rng)); s.push_str(&body); s.push_str(trail(&mut rng)); s.push('\n');
                }
                std::fs::write(dir.join("x.alias"), &s).unwrap();
                std::fs::write(dir.join("x.rsca"), "@ g\n    a > e\n").unwrap();
                std::fs::write(dir.join("w.wsca"), words_fixed.join("\n")).unwrap();
                let ent = |x: &Value| json!(x.as_array().unwrap().iter().map(|e| ENTRIES[e.as_u64().unwrap() as usize]).collect::<Vec<_>>());
                let (ei, ef) = (ent(&vec["exp"]["alias"]["into"]), ent(&vec["exp"]["alias"]["from"]));
                if ei != json!([]) || ef != json!([]) { sum.nontrivial += 1; }
                let (rc, _, err) = bin.run(&dir, &["conv", "asca", "-r", "x.rsca", "-w", "w.wsca", "-a", "x.alias", "-o", "out.json"]);
                match read_json(&dir.join("out.json")) {
                    Some(j) => {
                        if j["into"] != ei || j["from"] != ef { problems.push(format!("alias file read as into={} from={}, the documented reader gives into={} from={}", j["into"], j["from"], ei, ef)); }
                        // json -> alias -> json
                        if ei != json!([]) || ef != json!([]) {
                            let (rc2, _, err2) = bin.run(&dir, &["conv", "json", "-p", "out.json", "-w", "w2.wsca", "-r", "r2.rsca", "-a", "a2.alias"]);
                            if !dir.join("a2.alias").exists() || !dir.join("r2.rsca").exists() { problems.push(format!("conv json -w -r -a did not write the named files (exit {rc2}): {}", err2.trim())); }
                            else {
                                bin.run(&dir, &["conv", "asca", "-r", "r2.rsca", "-w", "w2.wsca", "-a", "a2.alias", "-o", "back.json"]);
                                match read_json(&dir.join("back.json")) { Some(b) => if b["into"] != j["into"] || b["from"] != j["from"] || b["rules"] != j["rules"] { problems.push(format!("json -> files -> json changed the aliases: {} / {} became {} / {}", j["into"], j["from"], b["into"], b["from"])); }, None => problems.push("round trip wrote no json".into()) }
                            }
                        }
                    }
                    None => problems.push(format!("conv asca -a wrote no json (exit {rc}): {}", err.trim())),
                }
            }
            _ => {
                let mut s: Vec<String> = Vec::new();
                for l in vec["lines"].as_array().unwrap() {
                    let w = WORDS[l["w"].as_u64().unwrap() as usize];
                    s.push(format!("{}{}{}{}", pad(&mut rng), w, trail(&mut rng), if l["c"].as_bool().unwrap() { "# a note # more" } else { "" }));
                }
                std::fs::write(dir.join("w.wsca"), s.iter().map(|l| format!("{l}\n")).collect::<String>()).unwrap();      // every line is terminated
                std::fs::write(dir.join("x.rsca"), "@ g\n    a > e\n").unwrap();
                let expw: Vec<&str> = vec["exp"]["words"].as_array().unwrap().iter().map(|w| WORDS[w.as_u64().unwrap() as usize]).collect();
                // an empty file has no lines at all
                let (rc, _, err) = bin.run(&dir, &["conv", "asca", "-r", "x.rsca", "-w", "w.wsca", "-o", "out.json"]);
                match read_json(&dir.join("out.json")) { Some(j) => if j["words"] != json!(expw) { problems.push(format!("word file read as {}, the documented reader gives {:?}", j["words"], expw)); }, None => problems.push(format!("conv asca wrote no json (exit {rc}): {}", err.trim())) }
                if !expw.is_empty() { sum.nontrivial += 1; }
                // run -o on the same word file: one result line per line the reader keeps (a comment-only or blank line stays, as an empty result, wherever it stands - the end of the file included)
                if !expw.is_empty() {
                    let g1 = vec![RuleGroup { name: "g".into(), rule: vec!["a > e".into()], description: String::new() }];
                    let lib = asca::run(&g1, &expw.iter().map(|w| w.to_string()).collect::<Vec<_>>(), &[], &[]);
                    let (rc2, _, err2) = bin.run(&dir, &["run", "-r", "x.rsca", "-w", "w.wsca", "-o", "res.wsca"]);
                    let got = std::fs::read_to_string(dir.join("res.wsca")).ok();
                    sum.count("word_file_run_o", 1);
                    match (&lib, &got) {
                        (Ok(l), Some(g)) => if *g != l.join("\n") { problems.push(format!("run -o on the word file wrote {:?}, library returns {:?}", g, l)); },
                        (Ok(l), None) => problems.push(format!("run -o on the word file wrote nothing (exit {rc2}: {}), library returns {:?}", err2.trim(), l)),
                        (Err(_), Some(g)) => problems.push(format!("library fails but run -o wrote {:?}", g)),
                        (Err(_), None) => {}
                    }
                }
            }
        }
        let _ = std::fs::remove_dir_all(&dir);
        if problems.is_empty() { sum.agree += 1; if sum.vectors % 97 == 0 { sum.sample(|| json!({"kind": kind, "lines": vec["lines"], "expected": vec["exp"]})); } }
        else { sum.mismatch(json!({"kind": kind, "lines": vec["lines"], "expected": vec["exp"], "problems": problems})); }
    });
    bin.cleanup();
    sum.print();
}
