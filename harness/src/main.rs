#![allow(dead_code)]
mod proj;
mod util;
mod tables;
mod c04;
mod rules;
mod scan;
mod c05;
mod c18;

fn main() {
    std::panic::set_hook(Box::new(|_| {}));    // panics of the code under test are data, not noise
    let args: Vec<String> = std::env::args().collect();
    let cmd = args.get(1).map(|s| s.as_str()).unwrap_or("");
    let id = args.get(2).map(|s| s.as_str()).unwrap_or("");
    match (cmd, id) {
        ("tables", dir) => tables::write(dir),
        ("replay", "C04") => c04::replay(),
        ("replay", "C03") => scan::replay(),
        ("replay", "C05") => c05::replay(),
        ("replay", "C18") => c18::replay(),
        _ => { eprintln!("usage: asca-conform tables <dir> | replay <id> | record <id> <out>"); std::process::exit(2); }
    }
}
