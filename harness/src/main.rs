#![allow(dead_code)]
mod proj;
mod util;
mod tables;
mod c04;
mod scanrec;
mod directed;
mod c13;
mod c12;
mod alias;
mod seq;
mod cli;
mod textrec;
mod text;
mod c17;
mod laws;
mod pipeline;
mod rules;
mod scan;
mod c05;
mod c18;

fn main() {
    // panics of the code under test are data, not noise: remember where they happened, print nothing
    std::panic::set_hook(Box::new(|info| {
        let loc = info.location().map(|l| format!("{}:{}", l.file().rsplit("/src/").next().unwrap_or(l.file()), l.line())).unwrap_or_default();
        proj::LAST_PANIC.with(|c| *c.borrow_mut() = loc);
    }));
    let args: Vec<String> = std::env::args().collect();
    let cmd = args.get(1).map(|s| s.as_str()).unwrap_or("");
    let id = args.get(2).map(|s| s.as_str()).unwrap_or("");
    match (cmd, id) {
        ("tables", dir) => tables::write(dir),
        ("replay", "C04") => c04::replay(),
        ("replay", "C03") => scan::replay(),
        ("replay", "C05") => c05::replay(),
        ("replay", "C18") => c18::replay(),
        ("ruletexts", _) => {
            // rule ASTs (args[2]) -> one line of text per AST (pairs are joined by a tab) in args[3]; only texts the real parser accepts
            let t = tables::load();
            let f = std::io::BufReader::new(std::fs::File::open(&args[2]).expect("asts"));
            let mut out = String::new();
            util::tlc_vectors(f, |v| {
                let mut texts = vec![rules::rule_text(&v["rule"], &t)];
                if v.get("rule2").is_some() { texts.push(rules::rule_text(&v["rule2"], &t)); }
                if asca::verif::parse_rules(&[asca::RuleGroup::from_rules(texts.clone())]).is_ok() {
                    // with each rule: a few words assembled from its own elements (after a unit separator)
                    let mut rng = util::Rng::new(v["seed"].as_u64().unwrap_or(1) ^ 0xd1ec);
                    let mut ws = directed::words(&v["rule"], &t, &mut rng, 4);
                    if v.get("rule2").is_some() { ws.extend(directed::words(&v["rule2"], &t, &mut rng, 3)); }
                    out.push_str(&texts.join("\t")); out.push('\u{1f}'); out.push_str(&ws.join(" ")); out.push('\n');
                }
            }, |_| {});
            std::fs::write(&args[3], out).unwrap();
        }
        ("rules", _) => {
            // prints the text of every rule AST on stdin and how the real parser receives it
            let t = tables::load();
            let mut ok = 0; let mut bad = 0;
            util::replay_stdin(|v| {
                let text = rules::rule_text(&v["rule"], &t);
                match asca::verif::parse_rules(&[asca::RuleGroup::from_rules(vec![text.clone()])]) {
                    Ok(_) => { ok += 1; println!("OK   {text}"); }
                    Err(e) => { bad += 1; println!("ERR  {text}    <- {}", proj::err_key(&e)); }
                }
            });
            println!("accepted {ok} rejected {bad}");
        }
        ("replay", "C17") => c17::replay(),
        ("faults", _) => c17::print_counts(),
        ("replay", "text") => text::replay(),
        ("replay", "C19") => cli::replay(),
        ("replay", "C20") => seq::replay(),
        ("replay", "C15") => alias::replay(),
        ("record", "C15") => alias::record(&args[3], args.get(4).and_then(|s| s.parse().ok()).unwrap_or(1000)),
        ("replay", "C12") => c12::replay(),
        ("replay", "C13") => c13::replay(),
        ("replay", "pipeline") => pipeline::replay_schedules(),
        ("record", "C02") | ("record", "C06") | ("record", "C07") | ("record", "C08") | ("record", "C14") =>
            laws::record(id, &args[3], &args[4], args.get(5).and_then(|s| s.parse().ok()).unwrap_or(5)),
        ("record", "C09") => textrec::record_c09(&args[3], args.get(4).and_then(|s| s.parse().ok()).unwrap_or(1000), &args[5.min(args.len())..]),
        ("record", "C01") => textrec::record_c01(&args[3], args[4].parse().unwrap(), args.get(5).and_then(|s| s.parse().ok()).unwrap_or(100)),
        ("record", "C03X") => scanrec::record_f1(&args[3], &args[4], args.get(5).and_then(|s| s.parse().ok()).unwrap_or(6)),
        ("record", "C03") => scanrec::record(&args[3], &args[4], args.get(5).and_then(|s| s.parse().ok()).unwrap_or(6)),
        ("record", "pipeline") => pipeline::record(&args[3], args.get(4).and_then(|s| s.parse().ok()).unwrap_or(100), util::env_u64("VERIF_SEED", 1)),
        _ => { eprintln!("usage: asca-conform tables <dir> | replay <id> | record <id> <out>"); std::process::exit(2); }
    }
}
